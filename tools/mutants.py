#!/usr/bin/env python3
"""dev-time mutation analysis (never used by a registered command).
stage 1: generate single-site mutants of the engine, keep those the 865 tests do not notice.
stage 2: run quick checks against the survivors and record which check reports which mutant.
usage: mutants.py gen <file-key> <out dir> [max]     file-key in: machines, conducting
       mutants.py kill <out dir> <ID> [<ID> ...]
"""
import difflib, json, os, random, re, shutil, subprocess, sys, tempfile

FILES = {"machines": "orquesta/machines.py", "conducting": "orquesta/conducting.py", "models": "orquesta/specs/native/v1/models.py", "composer": "orquesta/composers/native.py"}
STATUSES = ["RUNNING", "PAUSING", "PAUSED", "CANCELING", "CANCELED", "SUCCEEDED", "FAILED", "RESUMING"]


def candidates(key, src):
    lines = src.split("\n")
    out = []
    if key == "machines":
        for i, l in enumerate(lines):
            m = re.match(r"^(\s+events\.\w+: statuses\.)(\w+),\s*$", l)
            if m:
                for alt in STATUSES:
                    if alt != m.group(2):
                        out.append((i, m.group(1) + alt + ",", "row -> %s" % alt))
            elif re.match(r"^\s+events\.\w+: statuses\.\w+,?\s*$", l) is None and l.strip().startswith("if ") and " not " in l:
                out.append((i, l.replace(" not ", " ", 1), "drop not"))
    else:
        for i, l in enumerate(lines):
            s = l.strip()
            if s.startswith("#") or not s:
                continue
            for a, b in ((" == ", " != "), (" != ", " == "), (" >= ", " > "), (" > ", " >= "), (" <= ", " < "), (" and ", " or "), (" or ", " and "), (" not in ", " in "), ("if not ", "if "), (" is not None", " is None"), (" is None", " is not None"), ("True", "False"), ("False", "True")):
                if a in l:
                    out.append((i, l.replace(a, b, 1), "%s->%s" % (a.strip(), b.strip())))
            if re.match(r"^\s+(self\.\S+\(.*\)|\S+\.pop\(.*\)|\S+\[.+\] = .+|continue|break)$", l) and not s.startswith("return"):
                out.append((i, re.sub(r"\S.*", "pass", l, 1), "delete statement"))
    return lines, out


def gen(key, outdir, mx, skip=0):
    os.makedirs(outdir, exist_ok=True)
    rel = FILES[key]
    src = open(os.path.join("/repo", rel)).read()
    lines, cands = candidates(key, src)
    random.Random(7).shuffle(cands)
    wt = tempfile.mkdtemp(prefix="mutwt.", dir="/var/tmp")
    shutil.rmtree(wt)
    subprocess.run("git -C /repo worktree add -q --detach %s HEAD" % wt, shell=True, check=True)
    kept = 0
    try:
        for n, (i, new, what) in enumerate(cands[:mx]):
            if n < skip:
                continue
            mut = list(lines)
            mut[i] = new
            dst = "\n".join(mut)
            open(os.path.join(wt, rel), "w").write(dst)
            p = subprocess.run("/venv/bin/python -m pytest -q -x -p no:cacheprovider -n 8 2>&1 | tail -1", shell=True, cwd=wt, env=dict(os.environ, PYTHONPATH=wt, PYTHONDONTWRITEBYTECODE="1"), capture_output=True, text=True)
            survived = "865 passed" in p.stdout
            print("%4d/%d line %d %-22s %s" % (n + 1, min(mx, len(cands)), i + 1, what, "SURVIVED" if survived else "killed by suite"), flush=True)
            if survived:
                kept += 1
                d = "".join(difflib.unified_diff(src.splitlines(True), dst.splitlines(True), "a/" + rel, "b/" + rel))
                open(os.path.join(outdir, "%s_L%d_%d.diff" % (key, i + 1, n)), "w").write(d)
            open(os.path.join(wt, rel), "w").write(src)
    finally:
        subprocess.run("git -C /repo worktree remove --force %s" % wt, shell=True)
    print("survivors:", kept)


def kill(outdir, ids):
    root = os.path.dirname(os.path.dirname(os.path.abspath(__file__)))
    res = {}
    rp = os.path.join(outdir, "kill.json")
    if os.path.exists(rp):
        res = json.load(open(rp))
    for fn in sorted(os.listdir(outdir)):
        if not fn.endswith(".diff") or fn in res:
            continue
        d = tempfile.mkdtemp(prefix="orqmut.", dir="/var/tmp")
        try:
            shutil.copytree("/repo/orquesta", os.path.join(d, "orquesta"))
            if subprocess.run("patch -p1 -s < %s" % os.path.join(outdir, fn), shell=True, cwd=d).returncode:
                res[fn] = {"_": "patch failed"}
                continue
            r = {}
            line = int(re.search(r"_L(\d+)_", fn).group(1))
            use = ids
            if os.path.exists(os.path.join(outdir, "map.json")):
                for lo, hi, chks in json.load(open(os.path.join(outdir, "map.json"))):
                    if lo <= line <= hi:
                        use = chks
                        break
                else:
                    use = []
            for chk in use:
                q = subprocess.run(["./check", chk, "quick"], cwd=root, env=dict(os.environ, ORQUESTA_SRC=d), capture_output=True, text=True)
                m = re.search(r"^violation \([^)]*\): (\S+)", q.stdout, re.M)
                r[chk] = [q.returncode, m.group(1) if m else None]
                if q.returncode == 1:
                    break
            res[fn] = r
            print(fn, r, flush=True)
            json.dump(res, open(rp, "w"), indent=1)
        finally:
            shutil.rmtree(d, ignore_errors=True)


if __name__ == "__main__":
    if sys.argv[1] == "gen":
        gen(sys.argv[2], sys.argv[3], int(sys.argv[4]) if len(sys.argv) > 4 else 10**6, int(sys.argv[5]) if len(sys.argv) > 5 else 0)
    else:
        kill(sys.argv[2], sys.argv[3:])
