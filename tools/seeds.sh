#!/bin/sh
# dev-time: run quick checks at several seeds, print one summary line each
cd "$(dirname "$0")/.."
SEEDS="$1"; shift
for id in "$@"; do for s in $SEEDS; do
  VERIF_SEED=$s ./check $id quick > /tmp/seeds_${id}_${s}.txt 2>&1; rc=$?
  echo "$id seed=$s rc=$rc $(grep -c '^VIOLATION' /tmp/seeds_${id}_${s}.txt) viol | $(tail -1 /tmp/seeds_${id}_${s}.txt | cut -c1-250)"
  grep -m2 '^violation' /tmp/seeds_${id}_${s}.txt | cut -c1-400
done; done
