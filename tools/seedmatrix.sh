#!/bin/sh
# dev-time: run the owning check (quick) against every seeded change; usage: seedmatrix.sh [names...]
cd "$(dirname "$0")/.."
names="$@"; [ -z "$names" ] && names=$(ls seeded)
for n in $names; do
  prop=$(echo $n | cut -d- -f1)
  [ -f vf/props/$(echo $prop | tr A-Z a-z).py ] || { echo "$n: no check for $prop yet"; continue; }
  echo "### $n"; tools/mut.sh seeded/$n/patch.diff $prop | cut -c1-330
done
