#!/usr/bin/env python3
"""dev-time: run the owning quick check (and listed extra checks) against every seeded change in a scratch copy,
record the outcome in seeded/<name>/meta.json and write seeded/README.md."""
import json, os, re, shutil, subprocess, sys, tempfile
ROOT = os.path.dirname(os.path.dirname(os.path.abspath(__file__)))
EXTRA = {"C01-m1": ["C07"], "C01-m2": ["C02"], "C06-m2": ["C05"], "C08-m1": ["C07"], "C02-m2": ["C10"], "C03-m2": ["C07"], "C07-m1": ["C17"], "C17-m1": ["C03"], "C12-m4": ["C17"], "C03-m4": ["C17"], "C07-m3": ["C09"], "C07-m4": ["C03", "C09"], "C05-m3": ["C18"], "C18-m3": ["C05"], "C09-m3": ["C03"], "C01-m3": ["C13"], "C01-m4": ["C16"], "C15-m4": ["C11"], "C06-m4": ["C16"], "C19-m4": ["C05"], "C02-m6": ["C12"], "C10-m4": ["C02"], "C01-m5": ["C16"], "C05-m5": ["C18"], "C09-m4": ["C03"], "C04-m5": ["C10"], "C12-m5": ["C17"], "C12-m6": ["C17"], "C18-m6": ["C05", "C06"]}
NOTES = {
 "C01-m5": "caught by C16 (same slip as C01-m4: falsy action results become null)",
 "C05-m5": "caught by C18 (a started record's context list is rewritten through the shared staged entry) - the live and the restored twin of C05 did not hit the window within the quick budget",
 "C09-m4": "caught by C03 (its pinned regression for R21 / R29: the workflow stays pausing with nothing in flight)",
 "C18-m6": "not caught: the completion context of a failed with-items join is read from the staged entry, which a later arrival extended; no record changes and C06's value model does not follow with-items joins that fail",
 "C12-m5": "not caught: needs a rerun of a concurrency-limited with-items task; C12 never reruns and C17's with-items tasks have no concurrency limit (stated bound)",
 "C12-m6": "not caught: needs an item action that reports `pausing` on its own while the workflow keeps running; the simulated provider sends intermediate statuses only in answer to a workflow cancellation",
 "C15-m4": "caught by C11 (a YAQL expression raising IndexError / ZeroDivisionError escapes update_task_state): C11 owns 'expression errors are contained'",
 "C06-m4": "caught by C16 (a mapping republished over an empty mapping keeps the empty one): C06's value model excludes mapping values (they deep-merge)",
 "C19-m4": "caught by C05 (live twin vs restored twin differ): the change is invisible across hash seeds, it depends on where the conductor was restored",
 "C02-m6": "caught by C12 (an item that acknowledged with `canceling` is no longer counted as in flight): C02's provider does not send intermediate statuses",
 "C01-m4": "caught by C16 (an action result that is itself a falsy value - 0, false, '', [], {} - arrives as null); C01's own action results are non-empty mappings, so none of its conditions tells them apart",
 "C12-m3": "caught since in-flight items may acknowledge a cancellation with `canceling` (round 3)",
 "C12-m4": "caught by C17 (rerun of a with-items task whose failed item has a lower index than a succeeded one: the succeeded item is repeated, the failed one never runs); C12 itself never reruns",
 "C07-m1": "not caught: manifests only after an explicit rerun of a succeeded task upstream of a split followed by a fork and join; no generator requests reruns of succeeded upstream tasks",
 "C17-m1": "not caught as a property violation: since fix R10 a request whose tasks all collapse is rejected instead of leaving the workflow resuming forever; the statement says when a rerun may be accepted, not that it must be (the demo, which expects acceptance, still fails)",
 "C08-m1": "caught by C07 (the join is offered without a satisfied barrier / the workflow succeeds with an unreachable join); C08's own order comparison did not hit the order pair within the quick budget",
}
names = sorted(os.listdir(os.path.join(ROOT, "seeded")))
names = [n for n in names if os.path.isdir(os.path.join(ROOT, "seeded", n))]
only = sys.argv[1:]
readme_only = only == ["--readme"]
if readme_only:
    only = []
rows = []
for n in names:
    if only and n not in only:
        continue
    if readme_only:
        meta = json.load(open(os.path.join(ROOT, "seeded", n, "meta.json")))
        if n in NOTES:
            meta["note"] = NOTES[n]
        else:
            meta.pop("note", None)
        json.dump(meta, open(os.path.join(ROOT, "seeded", n, "meta.json"), "w"), indent=1)
        rows.append((n, meta.get("caught_by") or [], meta.get("checks_run_against_it") or {}, NOTES.get(n, "")))
        continue
    prop = n.split("-")[0]
    d = tempfile.mkdtemp(prefix="orqmut.", dir="/var/tmp")
    try:
        shutil.copytree("/repo/orquesta", os.path.join(d, "orquesta"))
        p = subprocess.run("patch -p1 -s < %s" % os.path.join(ROOT, "seeded", n, "patch.diff"), shell=True, cwd=d, capture_output=True, text=True)
        res = {}
        if p.returncode != 0:
            res = {"_patch": "does not apply"}
        else:
            for chk in [prop] + EXTRA.get(n, []):
                env = dict(os.environ, ORQUESTA_SRC=d, VERIF_SEED=os.environ.get("VERIF_SEED", "1"))
                q = subprocess.run(["./check", chk, "quick"], cwd=ROOT, env=env, capture_output=True, text=True)
                m = re.search(r"^violation \([^)]*\): (\S+)", q.stdout, re.M)
                res[chk] = {"rc": q.returncode, "kind": m.group(1) if m else None}
                if q.returncode == 1 and chk == prop:
                    break
    finally:
        shutil.rmtree(d, ignore_errors=True)
    caught = [c for c, r in res.items() if isinstance(r, dict) and r.get("rc") == 1]
    mp = os.path.join(ROOT, "seeded", n, "meta.json")
    meta = json.load(open(mp))
    meta["checks_run_against_it"] = res
    meta["caught_by"] = caught
    if n in NOTES:
        meta["note"] = NOTES[n]
    json.dump(meta, open(mp, "w"), indent=1)
    rows.append((n, caught, res, NOTES.get(n, "")))
    print(n, caught, res, flush=True)
if not only:
    with open(os.path.join(ROOT, "seeded", "README.md"), "w") as f:
        f.write("# Seeded changes\n\nEach directory holds one change to StackStorm/orquesta produced by an independent sub-agent that was given only the text of one property and a private worktree: `patch.diff` (applies to `/repo` HEAD), `demo.py` (fails with the change, passes without), `notes.md` (what it needs to manifest), `meta.json` (what was confirmed and which checks were run against it). All keep the 865 tests green. None is ever committed to `/repo`.\n\nQuick checks (seed 1) run against a scratch copy with the patch applied:\n\n| change | caught by | violation kind | note |\n|---|---|---|---|\n")
        for n, caught, res, note in rows:
            kinds = ", ".join("%s: %s" % (c, res[c]["kind"]) for c in caught)
            f.write("| %s | %s | %s | %s |\n" % (n, ", ".join(caught) or "**not caught**", kinds, note))
        f.write("\nRegenerate with `tools/seedreport.py` (dev-time; about two hours).\n")
