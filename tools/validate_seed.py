#!/usr/bin/env python3
"""dev-time: confirm a seeded change (patch + demo) in a scratch worktree of /repo HEAD and store it
under /verif/seeded/<name>/ with meta.json.  usage: validate_seed.py <src dir> <name> <property>"""
import json, os, shutil, subprocess, sys, tempfile
src, name, prop = sys.argv[1], sys.argv[2], sys.argv[3]
ROOT = os.path.dirname(os.path.dirname(os.path.abspath(__file__)))
wt = tempfile.mkdtemp(prefix="seedwt.", dir="/var/tmp")
os.rmdir(wt)
def sh(cmd, cwd=None, env=None):
    e = dict(os.environ); e.update(env or {})
    p = subprocess.run(cmd, shell=True, cwd=cwd, env=e, capture_output=True, text=True)
    return p.returncode, (p.stdout + p.stderr)[-600:]
meta = {"property": prop, "name": name, "origin": "independent sub-agent given only the property text and a scratch worktree"}
try:
    rc, out = sh("git -C /repo worktree add -q --detach %s HEAD" % wt)
    assert rc == 0, out
    head = sh("git -C /repo rev-parse --short HEAD")[1].strip()
    env = {"PYTHONPATH": wt, "PYTHONDONTWRITEBYTECODE": "1"}
    patch = os.path.join(src, "patch.diff")
    rc, out = sh("git apply --check %s" % patch, cwd=wt)
    meta["applies_to_head"] = (rc == 0); meta["repo_head"] = head
    if rc != 0:
        rc, out2 = sh("git apply --3way %s" % patch, cwd=wt)
        meta["applied_with_3way"] = (rc == 0)
        if rc != 0:
            meta["error"] = "patch does not apply: " + out
            raise SystemExit
        sh("git reset -q", cwd=wt)
    else:
        sh("git apply %s" % patch, cwd=wt)
    newpatch = sh("git diff", cwd=wt)
    rc, out = sh("/venv/bin/python -c 'import orquesta,sys; print(orquesta.__file__)'", cwd=wt, env=env)
    assert wt in out, out
    rc, out = sh("/venv/bin/python -m pytest -q -p no:cacheprovider -n 6 -x 2>&1 | tail -1", cwd=wt, env=env)
    meta["suite_with_change"] = out.strip()
    rc, out = sh("/venv/bin/python %s" % os.path.join(src, "demo.py"), cwd=wt, env=env)
    meta["demo_with_change_rc"] = rc; meta["demo_with_change_tail"] = out[-300:]
    full = subprocess.run("git diff", shell=True, cwd=wt, capture_output=True, text=True).stdout
    sh("git checkout -- .", cwd=wt)
    rc, out = sh("/venv/bin/python %s" % os.path.join(src, "demo.py"), cwd=wt, env=env)
    meta["demo_without_change_rc"] = rc
    meta["confirmed"] = ("865 passed" in meta["suite_with_change"]) and meta["demo_with_change_rc"] != 0 and meta["demo_without_change_rc"] == 0
    dst = os.path.join(ROOT, "seeded", name)
    os.makedirs(dst, exist_ok=True)
    open(os.path.join(dst, "patch.diff"), "w").write(full)
    shutil.copy(os.path.join(src, "demo.py"), dst)
    if os.path.exists(os.path.join(src, "notes.md")):
        shutil.copy(os.path.join(src, "notes.md"), dst)
        meta["needs"] = "see notes.md"
    meta["ran"] = ["git apply patch.diff in a scratch worktree of /repo HEAD", "pytest -q -n 6 (whole suite)", "demo.py with the change (must exit non-zero)", "demo.py without it (must exit 0)"]
    json.dump(meta, open(os.path.join(dst, "meta.json"), "w"), indent=1)
finally:
    sh("git -C /repo worktree remove --force %s" % wt)
    print(name, json.dumps({k: meta.get(k) for k in ("confirmed", "applies_to_head", "suite_with_change", "demo_with_change_rc", "demo_without_change_rc", "error")}))
