#!/usr/bin/env python3
"""dev-time: make a sensitivity patch by exact string replacement in a file of /repo.
usage: mkpatch.py <name> <relative file> <old> <new> [<old2> <new2> ...]"""
import difflib, sys, os
name, rel = sys.argv[1], sys.argv[2]
src = open(os.path.join("/repo", rel)).read()
dst = src
pairs = sys.argv[3:]
for i in range(0, len(pairs), 2):
    old, new = pairs[i].encode().decode("unicode_escape"), pairs[i + 1].encode().decode("unicode_escape")
    assert dst.count(old) == 1, (old, dst.count(old))
    dst = dst.replace(old, new)
d = "".join(difflib.unified_diff(src.splitlines(True), dst.splitlines(True), "a/" + rel, "b/" + rel))
out = os.path.join(os.path.dirname(os.path.abspath(__file__)), "..", "sensitivity", name + ".diff")
mode = "a" if os.path.exists(out) and os.environ.get("APPEND") else "w"
open(out, mode).write(d)
print(d)
