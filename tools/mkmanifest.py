#!/usr/bin/env python3
"""Regenerate MANIFEST.json from the table below + the property modules that exist."""
import json, os
ROOT = os.path.dirname(os.path.dirname(os.path.abspath(__file__)))
T = {
 "C01": ("stateful generation + reference-model oracle (due-work ledger)", "Generated definitions x outcome tables x schedules, checked step by step against an independent due-work ledger; exploration, not proof: it shows the property on every generated case and finds counterexamples where a shape or interleaving breaks it.", "model restricted to the closed xl expression grammar; route numbers taken from the public return value of get_next_tasks; join N late arrival (R1) truncated"),
 "C02": ("stateful generation + invariant over every step (harness ledger + reference model)", "Status invariant asserted after every API call of generated histories with pause/resume/cancel anywhere.", "harness ledger defines in-flight; 'handled' from the language docs; R1 truncated; directed fork-join and items-siblings parts"),
 "C03": ("stateful generation + quiescence invariant (liveness as safety at harness-made quiescent points)", "At every quiescent point of generated histories the status must be resting; the harness owns the schedule so quiescence is observable exactly.", "probe poll is a pure query (C19); rerun only after unhandled task failure (R10/R11 owned by C17); in part of the runs the first status report of a dispatched action is made late (before the provider polls again)"),
 "C04": ("stateful generation past terminal + exhaustive 16x status request table on copies (state-diff oracle)", "Histories continued past the first terminal status with generated suffixes; every status requested on copies of reachable states; rejected => serialize() byte-identical.", "only 'rejected => no effect' and terminal finality are asserted"),
 "C05": ("lock-step differential (never-persisted twin vs persisted/restored twin) over generated histories", "Differential: two conductors receive the same calls, one is persisted/restored at generated points through a real JSON round trip; any observable difference is a violation.", "persistence = json round trip of serialize()"),
 "C06": ("generated publish placements x schedules against a reference model of contexts with provenance (publish events and supersede sets)", "The user-visible context and rendered input of every offered task, and the output, are compared with a model that tracks which publish events reached each execution and which supersede which.", "scalar/list values; split-task executions matched to pending model contexts; R3 matched narrowly; R1 truncated"),
 "C07": ("directed fork-join generation + reference-model oracle (join instances per route) + unreachable-join oracle at rest", "Directed and general generated definitions x schedules; each join offer must consume a firing of its model instance; at rest a partial instance must have failed the workflow with UnreachableJoinError.", "join N < inbound outside cycles only; known finding R1 matched narrowly"),
 "C08": ("metamorphic relation over the set of linearisations (exhaustive DFS up to 720 orders, else 64)", "One definition with fixed per-task outcomes executed under every completion order (or 64): status, executed multiset, published deltas and non-concurrent output variables must agree.", "publishes are literals/result-derived; a variable is excluded only if two of its publishing transitions that fired in the scenario are concurrent; R3/R1 matched or excluded"),
 "C09": ("twin-run differential with a constructed drain window (paused twin vs plain twin with identical completion order)", "For generated definitions, outcome tables and pause positions the paused twin and the plain twin receive the same completion reports in the same order; no offers while pausing/paused, paused exactly at the last report, same held-back work, same final status/errors/executed/output.", "output compared on variables with <= 1 publish event; executed sets on success only; R1 orders excluded; R18 matched"),
 "C10": ("stateful generation with one cancel at a generated position + ledger/model invariant", "Cancellation invariant (no offers, canceling/canceled by ledger, final canceled, output renders) on generated histories.", "definitions cannot fail expressions (C11 owns that); dormant != in flight"),
 "C19": ("cross-process differential replay under different PYTHONHASHSEED values + idempotence probe at every poll point", "Generated definitions (accepted and rejected mutants) and histories replayed in 4 interpreters with different hash seeds, digests compared step by step; three consecutive get_next_tasks() compared at every poll point with state diff.", "children use the same library-free driver; canonical JSON for objects, ordered comparison for lists"),
 "C11": ("exhaustive fault-injection matrix (position x failure kind x language x history variant) + generated hosts with a planted failing expression", "Every expression position, every failure kind that inspection lets through, both languages, at every kind of history point where that position is evaluated, enumerated completely; plus random hosts/schedules.", "clean-up tasks beside a fail command may still be offered (C04's documented exception)"),
 "C12": ("generated item lists/concurrency/outcomes/interleavings with an item-level ledger oracle", "With-items task driven under generated interleavings with pause/resume/cancel; item ledger checks once/in order/window/value/result order/iff-succeeded.", "item RUNNING is reported at dispatch, atomically with the poll; an in-flight item may acknowledge a cancellation with `canceling` before `canceled`"),
 "C13": ("generated retry policies/commands x per-attempt outcome sequences; engine's retry decisions validated against a reference model + state-diff oracle per retried attempt", "Every observed retry must be allowed by the model (count, condition, workflow active); delays checked on offers; the retrying call may not publish, create records, stage successors or change status; later offers justified by the due ledger.", "upper-bound reading of the statement (declined retries are counted, not alarmed)"),
 "C14": ("generated definitions vs independent reference graph construction + metamorphic declaration-order permutations + serialisation round trip", "Composer output compared as sets of nodes/edges/keys/attributes with a reference built from the IR; every or 7 sampled permutations of the declaration order; round trip.", "the `splits` node attribute is not part of the statement and not compared"),
 "C15": ("stateful generation over accepted definitions with an exception oracle + single-fault mutation of accepted definitions with an inspection-report oracle", "Soundness: any exception escaping a conductor API call on a generated legal history of an accepted definition is a violation. Completeness: every planted fault (class x position x reference form) must be reported by inspect() at its site.", "documented rejections of status requests are not internal errors; R11 (owned by C17) abandons the run"),
 "C16": ("round-trip / type-exact transport oracle over generated JSON values; before/after context comparison for purity; exhaustive access-form enumeration for hiding", "Generated values through every stage of a two-task pipeline in both languages and all reference forms with persist/restore; mutating-expression shapes for purity; exhaustive internal-name access forms.", "strings with expression/comment delimiters and lone surrogates are outside the domain"),
 "C20": ("round-trip oracle for the inline parameter grammar + twin-definition differential (long form vs generated shorthand combination) with lock-step conducting", "Inline rendering of generated documented values parsed back type-exactly; twins composed, inspected and conducted in lock-step under one history with equal offers, contexts, errors, output.", "documented value grammar only; strings that are valid JSON object texts are not expressible inline as strings"),
 "C17": ("generated failed histories x rerun request variants x multi-round continuation; state-diff oracle for rejected requests, quiescence oracle after acceptance, clean-run twin differential", "Rejected reruns (active workflow, non-existent execution) leave the state identical; accepted ones move to resuming, never get stuck, and converge to the status/executed multiset/output of the clean twin.", "twin compared on histories without late completions; R23 matched; R1 excluded"),
 "C18": ("stateful generation + temporal invariant over consecutive persisted states", "Append-only / frozen-record invariant over serialize()['state'] after every call of generated histories.", "with-items rerun reuses its record by design"),
}
LATER = {}
props = [json.loads(l) for l in open(os.path.join(ROOT, "properties.jsonl"))]
checks, na = [], []
for p in props:
    i = p["id"]
    if os.path.exists(os.path.join(ROOT, "vf", "props", i.lower() + ".py")) and i in T:
        tech, text, note = T[i]
        checks.append({
            "property_id": i,
            "quick_cmd": "./check %s quick" % i,
            "thorough_cmd": "./check %s thorough" % i,
            "evidence_file": "evidence/%s.json" % i,
            "replay_cmd_template": "./check %s --replay {path}" % i,
            "engine": "vf",
            "level_claimed": {"category": "exploration", "text": text, "design_ref": "DESIGN.md section 4, " + i},
            "level_note": note,
            "technique": "property-based testing (Hypothesis): " + tech,
        })
    else:
        na.append({"property_id": i, "reason": "check not built yet in this round (planned: DESIGN.md section 4 %s); not claimed until it runs quiet on the unchanged tree" % i})
m = {
 "version": 1,
 "setup_cmd": "./setup.sh",
 "hooks": {
  "guard": "ORQUESTA_VERIF",
  "enable": "no hooks: every observation point is public API; checks run /venv/bin/python with PYTHONPATH=/repo so the code under test is /repo's working tree",
  "baseline_off_cmd": "cd /repo && /venv/bin/python -m pytest -q -p no:cacheprovider",
  "source_commits": [],
  "add_only": True,
 },
 "engines": [{"name": "vf", "path": "vf/", "serves_properties": [c["property_id"] for c in checks], "kind_free_text": "Python property-based testing framework on Hypothesis 6.168: definition IR + generators, simulated provider with its own action ledger, reference semantics, 16-process runner with evidence/replay/known-findings"}],
 "checks": checks,
 "not_applicable": na,
 "notes": "All checks are exploration-level property-based tests; evidence files are rewritten by every run. known_findings.json lists recorded defects and the fix: commits made in /repo.",
}
json.dump(m, open(os.path.join(ROOT, "MANIFEST.json"), "w"), indent=1)
print("claimed:", [c["property_id"] for c in checks])
