#!/bin/sh
# dev-time only: run quick checks against a scratch copy of /repo with a patch applied.
# usage: tools/mut.sh <patch.diff> <ID> [<ID>...]     (VERIF_SEED honoured)
P="$(readlink -f "$1")"; shift
D="$(mktemp -d /var/tmp/orqmut.XXXXXX)"
trap 'rm -rf "$D"' EXIT
cp -r /repo/orquesta "$D/orquesta"
( cd "$D" && patch -p1 -s < "$P" ) || { echo "patch failed"; exit 2; }
cd "$(dirname "$0")/.."
for id in "$@"; do
  ORQUESTA_SRC="$D" VERIF_NPROC="${VERIF_NPROC:-16}" ./check "$id" quick > "$D/out.txt" 2>&1
  rc=$?
  echo "== $id rc=$rc  $(grep -c '^VIOLATION' "$D/out.txt") violation line(s): $(grep -m1 '^violation' "$D/out.txt" | cut -c1-300)"
  tail -1 "$D/out.txt" | cut -c1-300; [ $rc = 2 ] && tail -15 "$D/out.txt"
done
