#!/bin/sh
# dev-time: validate the two round-2 seeds of a property and run the given checks against them
# usage: tools/r2.sh <ID> <first new index> <check>...
id=$1; k0=$2; shift 2
cd "$(dirname "$0")/.."
for k in 1 2; do
  n=$id-m$((k0+k-1))
  python3 tools/validate_seed.py ${R2SRC:-/var/tmp/wt2out}/$id/m$k $n $id
  tools/mut.sh seeded/$n/patch.diff "$@" | grep "^=="
done
