#!/bin/sh
# Offline setup: make sure hypothesis is importable by /venv/bin/python (it is pre-installed there on
# this image; otherwise install it from the offline wheelhouse into /verif/.deps).
cd "$(dirname "$0")"
if ! /venv/bin/python -c "import hypothesis" 2>/dev/null; then
  /venv/bin/pip install --no-index --find-links /opt/veriftools/wheels --target ./.deps hypothesis || exit 1
fi
PYTHONPATH=/repo:./.deps /venv/bin/python -c "import hypothesis, orquesta; print('setup ok: hypothesis', hypothesis.__version__, 'orquesta from', orquesta.__file__)"
