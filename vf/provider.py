"""Simulated provider driving a real WorkflowConductor, with its own ledger of actions.

A *history* is a list of concrete operations (plain dicts).  `Driver.apply(op)` performs one
operation through the conductor's public API exactly as the two callers in the repository do
(rehearsing.py, tests/unit/base.py) and st2's workflow service does:

  {"op": "poll"}                         get_next_tasks() and dispatch everything offered
  {"op": "done", "a": [task, route, item], "status": s, "result": r}
  {"op": "report", "a": [...], "status": "pending"|"paused"|...}   intermediate status report
  {"op": "req", "status": s}             request_workflow_status(s)
  {"op": "restore"}                      conductor = deserialize(json round trip of serialize())
  {"op": "rerun", "tasks": [[task, route, reset_items]...] | None}
  {"op": "output"}                       render_workflow_output()

The ledger (`inflight`, `dormant`, `done`) is the harness's own knowledge of what it dispatched
and reported; it never reads that from the conductor.
"""
import copy
import json

from orquesta import conducting, events, exceptions as exc, requests as orq_requests
from orquesta import statuses as st
from orquesta.specs import native as native_specs

TERMINAL = (st.SUCCEEDED, st.FAILED, st.CANCELED)
# a status request the lifecycle forbids is "rejected with an error"; these are the error types
REJECTION = (exc.InvalidWorkflowStatusTransition, exc.InvalidEvent, exc.InvalidStatus, exc.InvalidStatusTransition)
ACTION_TERMINAL = (st.SUCCEEDED, st.FAILED, st.EXPIRED, st.ABANDONED, st.CANCELED)


class EngineException(Exception):
    """An exception escaped a conductor API call on a legal history."""

    def __init__(self, call, e):
        import traceback

        self.call = call
        self.etype = type(e).__name__
        self.msg = str(e)
        tb = traceback.extract_tb(e.__traceback__)
        frames = [f for f in tb if "/orquesta/" in f.filename]
        f = frames[-1] if frames else tb[-1]
        self.site = "%s:%s" % (f.filename.split("/orquesta/")[-1], f.name)
        super().__init__("%s in %s: %s: %s" % (self.etype, call, self.site, self.msg))


class KnownTrigger(Exception):
    """The run reached the trigger of a recorded known finding; it is abandoned here (counted)."""

    def __init__(self, fid):
        self.fid = fid
        super().__init__(fid)


class Anomaly(Exception):
    """The engine did something no provider can act on (e.g. offered an engine command as a task)."""


ENGINE_COMMANDS = ("continue", "noop", "fail", "retry")


def jdump(x):
    return json.dumps(x, sort_keys=True, default=str)


class Driver(object):
    def __init__(self, defn, inputs=None, item_task_running=False, lifecycle=0, spec=None, lazy=False):
        self.defn = defn
        self.inputs = inputs or {}
        self.spec = spec or native_specs.WorkflowSpec(copy.deepcopy(defn))
        self.c = conducting.WorkflowConductor(self.spec, inputs=copy.deepcopy(self.inputs))
        self.item_task_running = item_task_running
        self.lifecycle = lifecycle  # 0: RUNNING only; 1: REQUESTED,SCHEDULED,RUNNING
        # lazy: the first status report of a dispatched action (requested/scheduled/running) is not made
        # at dispatch but later - before its next report or, at the latest, before the next poll - so that
        # requests and the reports of other actions can land between the offer and the first report
        self.lazy = lazy
        self.unstarted = []  # dispatched actions whose first report is still to come (also in inflight)
        self._first = {}
        self.inflight = []  # [task, route, item] dispatched, last report active
        self.dormant = []  # last report pending/paused
        self.completed = []  # (task, route, item, status)
        self.acc = {}  # (task, route) -> {item: result}
        self.dispatched = []  # every dispatched action in order: (task, route, item)
        self.offers = []  # every offer (dict) in order
        self.steps = []  # one record per applied op
        self.observers = []
        self.restores = 0
        self.reruns = 0
        self.started = False

    # ------------------------------------------------------------------ helpers
    def status(self):
        return self.c.get_workflow_status()

    def state(self):
        return self.c.serialize()

    def _call(self, name, fn, *a, **kw):
        try:
            return fn(*a, **kw)
        except REJECTION as e:
            if name != "request_workflow_status":
                # a rejection is the answer to a status *request*; out of any other call it is an escape
                x = EngineException(name, e)
                x.driver = self
                x.args_repr = repr(a)[:200]
                raise x
            raise
        except Exception as e:  # noqa
            x = EngineException(name, e)
            x.driver = self
            x.args_repr = repr(a)[:200]
            raise x

    def start(self):
        """What st2 does: render inputs/vars lazily (serialize), then request running."""
        self._call("serialize", self.c.serialize)
        self.started = True
        before = self.status()
        rec = {"op": {"op": "start"}, "before": before, "offers": [], "rejected": False}
        if before != st.FAILED:
            try:
                self._call("request_workflow_status", self.c.request_workflow_status, st.RUNNING)
            except REJECTION:
                rec["rejected"] = True
        rec["after"] = self.status()
        self._record(rec)
        return rec

    def _record(self, rec):
        self.steps.append(rec)
        for ob in self.observers:
            ob(self, rec)

    def offer_key(self, t):
        return (t["id"], t["route"], tuple(a.get("item_id") for a in t["actions"]))

    def next_tasks(self):
        return self._call("get_next_tasks", self.c.get_next_tasks)

    # ------------------------------------------------------------------ operations
    def apply(self, op):
        kind = op["op"]
        rec = {"op": op, "before": self.status(), "offers": [], "rejected": False}
        if kind == "report" and op["status"] == st.PENDING and list(op["a"]) in self.unstarted:
            # the first report of the action is `pending` (an inquiry): nothing precedes it
            self.unstarted.remove(list(op["a"]))
            self._first[tuple(op["a"])].pop(0)
        elif kind in ("done", "report") and list(op["a"]) in self.unstarted:
            self.begin(list(op["a"]))
        if kind == "begin":
            if list(op["a"]) in self.unstarted:
                self.begin(list(op["a"]))
        elif kind == "poll":
            # a provider reports what it started before it asks again (the engine offers a task until
            # its first report arrives)
            for a in list(self.unstarted):
                self.begin(a)
            tasks = self.next_tasks()
            for t in tasks:
                o = {
                    "id": t["id"],
                    "route": t["route"],
                    "items": [a.get("item_id") for a in t["actions"]],
                    "actions": copy.deepcopy(t["actions"]),
                    "delay": t.get("delay"),
                    "ctx": {k: v for k, v in t["ctx"].items() if not k.startswith("__")},
                    "raw_ctx_keys": sorted(t["ctx"].keys()),
                    "items_count": t.get("items_count"),
                    "concurrency": t.get("concurrency"),
                    "status_at_offer": rec["before"],
                }
                rec["offers"].append(o)
                self.offers.append(o)
            for t in tasks:
                if t["id"] in ENGINE_COMMANDS:
                    rec["after"] = self.status()
                    raise Anomaly("engine command %r offered to the provider as a task" % t["id"])
            # dispatch is atomic with the poll (st2 does both under the execution lock)
            for t in tasks:
                self._dispatch(t)
        elif kind == "done":
            a = list(op["a"])
            if a in self.inflight:
                self.inflight.remove(a)
            else:
                self.dormant.remove(a)
            self._report(a, op["status"], op.get("result"))
            self.completed.append((a[0], a[1], a[2], op["status"]))
        elif kind == "report":
            a = list(op["a"])
            s = op["status"]
            if s in (st.PENDING, st.PAUSED):
                if a in self.inflight:
                    self.inflight.remove(a)
                    self.dormant.append(a)
            else:
                if a in self.dormant:
                    self.dormant.remove(a)
                    self.inflight.append(a)
            self._report(a, s, None, final=False)
        elif kind == "req":
            try:
                self._call("request_workflow_status", self.c.request_workflow_status, op["status"])
            except REJECTION as e:
                rec["rejected"] = True
                rec["reject_msg"] = str(e)
        elif kind == "restore":
            data = json.loads(json.dumps(self._call("serialize", self.c.serialize)))
            self.c = self._call("deserialize", conducting.WorkflowConductor.deserialize, data)
            self.restores += 1
        elif kind == "rerun":
            reqs = None
            if op.get("tasks") is not None:
                reqs = [orq_requests.TaskRerunRequest.new(t, r, reset_items=ri) for t, r, ri in op["tasks"]]
            self.reruns += 1
            try:
                self.c.request_workflow_rerun(task_requests=reqs)
            except (exc.WorkflowIsActiveAndNotRerunableError, exc.InvalidTaskRerunRequest) as e:
                rec["rejected"] = True
                rec["reject_msg"] = type(e).__name__
            except Exception as e:  # noqa
                raise EngineException("request_workflow_rerun", e)
        elif kind == "output":
            self._call("render_workflow_output", self.c.render_workflow_output)
        else:
            raise ValueError(kind)
        rec["after"] = self.status()
        self._record(rec)
        return rec

    def _upd(self, task, route, ev):
        return self._call("update_task_state", self.c.update_task_state, task, route, ev)

    def _dispatch(self, t):
        tid, route = t["id"], t["route"]
        if "items_count" in t:
            if t["items_count"] == 0:
                self._upd(tid, route, events.ActionExecutionEvent(st.RUNNING))
                self._upd(tid, route, events.ActionExecutionEvent(st.SUCCEEDED, result=[]))
                self.dispatched.append((tid, route, "empty"))
                self.completed.append((tid, route, "empty", st.SUCCEEDED))
                return
            if self.item_task_running and not self.lazy:
                self._upd(tid, route, events.ActionExecutionEvent(st.RUNNING))
            for a in t["actions"]:
                self._launch([tid, route, a["item_id"]])
        else:
            self._launch([tid, route, None])

    def _launch(self, a):
        key = tuple(a)
        first = self._startup(key)
        self.inflight.append(list(a))
        self.dispatched.append(key)
        if self.lazy:
            self.unstarted.append(list(a))
            self._first.setdefault(key, []).append(first)  # (known finding R1 offers a running join again)
        else:
            self._send_first(a, first)

    def _send_first(self, a, statuses_):
        tid, route, item = a
        for s in statuses_:
            ev = events.ActionExecutionEvent(s) if item is None else events.TaskItemActionExecutionEvent(item, s)
            self._upd(tid, route, ev)

    def begin(self, a):
        """first status report(s) of a dispatched action (lazy mode; the optional task-level running
        report of a with-items task is not made in this mode)"""
        self.unstarted.remove(list(a))
        self._send_first(a, self._first[tuple(a)].pop(0))

    def _startup(self, key):
        # The full action lifecycle (requested, scheduled, running) is reported only for the first
        # dispatch of an action: the task state machine defines those events for a fresh task only
        # (a retrying task accepts just `running`), so later attempts start with `running`.
        if not self.lifecycle or key in self.dispatched:
            return [st.RUNNING]
        return [st.REQUESTED, st.SCHEDULED, st.RUNNING]

    def _report(self, a, status, result, final=True):
        tid, route, item = a
        if item is None:
            ev = events.ActionExecutionEvent(status, result=result)
        else:
            acc = self.acc.setdefault((tid, route), {})
            if final:
                acc[item] = result
            n = (max(acc) + 1) if acc else 0
            ev = events.TaskItemActionExecutionEvent(
                item, status, result=result, accumulated_result=[acc.get(i) for i in range(n)]
            )
        self._upd(tid, route, ev)

    # ------------------------------------------------------------------ conveniences
    def quiescent(self):
        return not self.inflight and not self.dormant

    def run_lockstep(self, outcome=None, max_steps=400):
        """Finish deterministically: poll, then complete oldest in flight, until rest."""
        outcome = outcome or (lambda a, n: (st.SUCCEEDED, None))
        n = 0
        while n < max_steps:
            n += 1
            r = self.apply({"op": "poll"})
            if not self.inflight:
                if not r["offers"]:
                    break
                continue
            a = self.inflight[0]
            s, res = outcome(a, n)
            self.apply({"op": "done", "a": a, "status": s, "result": res})
