"""Definition IR, the mini expression language `xl`, renderers and the model evaluator.

The IR is plain JSON (dicts / lists / scalars) so that a scenario can be stored, replayed and
shrunk as data.  The *engine* only ever sees the rendered orquesta definition; the *oracles*
only ever interpret the IR.  The two share no parsing, composition or evaluation code.

Expression AST (lists, first element is the operator):

 conditions  ["true"] (no `when`)  ["succeeded"] ["failed"] ["completed"]
             ["res_eq", key, lit]  ["res_ne", key, lit]          result().key = / != lit
             ["ctx_lt", var, n] ["ctx_ge", var, n] ["ctx_eq", var, lit]
             ["and", a, b] ["or", a, b] ["not", a]
 values      ["lit", v]  ["ctx", var]  ["ctx_plus", var, n]  ["ctx_rsub", var, k]  ["res"]  ["res_key", key]
             ["item"] ["item_key", k]

Each expression carries its own rendering style: a dict {"e": ast, "lang": "yaql"|"jinja",
"form": 0..3} where form selects one of the documented context reference forms.
"""
import copy

YAQL, JINJA = "yaql", "jinja"

ABENDED = ("failed", "timeout", "abandoned")
COMPLETED = ("succeeded", "failed", "timeout", "abandoned", "canceled")


class ModelError(Exception):
    """The model cannot give a value (undefined variable, missing key ...)."""


# ----------------------------------------------------------------------------- rendering


def _lit(v, lang):
    if v is None:
        return "null" if lang == YAQL else "none"
    if v is True:
        return "true"
    if v is False:
        return "false"
    if isinstance(v, (int, float)):
        return repr(v)
    if isinstance(v, str):
        assert "'" not in v and "\\" not in v
        return "'%s'" % v
    if isinstance(v, list):
        if lang == YAQL:
            return "list(%s)" % ", ".join(_lit(x, lang) for x in v) if v else "list()"
        return "[%s]" % ", ".join(_lit(x, lang) for x in v)
    raise ValueError(v)


def _ctxref(var, lang, form):
    if lang == YAQL:
        return ["ctx(%s)", "ctx('%s')", 'ctx("%s")', "ctx().%s"][form % 4] % var
    return ["ctx('%s')", 'ctx("%s")', "ctx().%s", "ctx('%s')"][form % 4] % var


def _r(e, lang, form):
    op = e[0]
    eq = "=" if lang == YAQL else "=="
    if op == "true":
        return "true"
    if op in ("succeeded", "failed", "completed"):
        return op + "()"
    if op == "res_eq":
        return "result().%s %s %s" % (e[1], eq, _lit(e[2], lang))
    if op == "res_ne":
        return "result().%s != %s" % (e[1], _lit(e[2], lang))
    if op == "ctx_lt":
        return "%s < %s" % (_ctxref(e[1], lang, form), _lit(e[2], lang))
    if op == "ctx_ge":
        return "%s >= %s" % (_ctxref(e[1], lang, form), _lit(e[2], lang))
    if op == "ctx_eq":
        return "%s %s %s" % (_ctxref(e[1], lang, form), eq, _lit(e[2], lang))
    if op in ("and", "or"):
        return "(%s) %s (%s)" % (_r(e[1], lang, form), op, _r(e[2], lang, form))
    if op == "not":
        return "not (%s)" % _r(e[1], lang, form)
    if op == "lit":
        return _lit(e[1], lang)
    if op == "ctx":
        return _ctxref(e[1], lang, form)
    if op == "ctx_plus":
        return "%s + %s" % (_ctxref(e[1], lang, form), _lit(e[2], lang))
    if op == "ctx_rsub":  # k - ctx(var)
        return "%s - %s" % (_lit(e[2], lang), _ctxref(e[1], lang, form))
    if op == "res":
        return "result()"
    if op == "res_key":
        return "result().%s" % e[1]
    if op == "item":
        return "item()"
    if op == "item_key":
        return "item(%s)" % e[1] if lang == YAQL else "item('%s')" % e[1]
    raise ValueError(e)


def render(x):
    """Render an expression holder {"e", "lang", "form"} (or a plain literal) for the engine."""
    if not (isinstance(x, dict) and "e" in x):
        return x
    body = _r(x["e"], x.get("lang", YAQL), x.get("form", 0))
    return "<% " + body + " %>" if x.get("lang", YAQL) == YAQL else "{{ " + body + " }}"


def is_expr(x):
    return isinstance(x, dict) and "e" in x


def E(ast, lang=YAQL, form=0):
    return {"e": ast, "lang": lang, "form": form}


# ----------------------------------------------------------------------------- model evaluation


def ev(x, status=None, result=None, ctx=None, item=None):
    """Model value of an expression holder or literal.  status: task status, result: task result."""
    if not is_expr(x):
        return copy.deepcopy(x)
    return _ev(x["e"], status, result, ctx or {}, item)


def _key(v, k):
    if not isinstance(v, dict) or k not in v:
        raise ModelError("no key %s" % k)
    return v[k]


def _var(ctx, v):
    if v not in ctx:
        raise ModelError("undefined %s" % v)
    return ctx[v]


def _ev(e, status, result, ctx, item):
    op = e[0]
    if op == "true":
        return True
    if op == "succeeded":
        return status == "succeeded"
    if op == "failed":
        return status == "failed"
    if op == "completed":
        return status in COMPLETED
    if op == "res_eq":
        return _key(result, e[1]) == e[2]
    if op == "res_ne":
        return _key(result, e[1]) != e[2]
    if op == "ctx_lt":
        return _var(ctx, e[1]) < e[2]
    if op == "ctx_ge":
        return _var(ctx, e[1]) >= e[2]
    if op == "ctx_eq":
        return _var(ctx, e[1]) == e[2]
    if op == "and":
        return bool(_ev(e[1], status, result, ctx, item)) and bool(_ev(e[2], status, result, ctx, item))
    if op == "or":
        return bool(_ev(e[1], status, result, ctx, item)) or bool(_ev(e[2], status, result, ctx, item))
    if op == "not":
        return not _ev(e[1], status, result, ctx, item)
    if op == "lit":
        return copy.deepcopy(e[1])
    if op == "ctx":
        return copy.deepcopy(_var(ctx, e[1]))
    if op == "ctx_plus":
        return _var(ctx, e[1]) + e[2]
    if op == "ctx_rsub":
        return e[2] - _var(ctx, e[1])
    if op == "res":
        return copy.deepcopy(result)
    if op == "res_key":
        return copy.deepcopy(_key(result, e[1]))
    if op == "item":
        return copy.deepcopy(item)
    if op == "item_key":
        return copy.deepcopy(_key(item, e[1]))
    raise ValueError(e)


def ctx_vars(x):
    """Context variables an expression reads."""
    out = set()
    if not is_expr(x):
        return out

    def walk(e):
        if e[0] in ("ctx_lt", "ctx_ge", "ctx_eq", "ctx", "ctx_plus", "ctx_rsub"):
            out.add(e[1])
        for s in e[1:]:
            if isinstance(s, list) and s and isinstance(s[0], str):
                walk(s)

    walk(x["e"])
    return out


# ----------------------------------------------------------------------------- definition IR -> orquesta dict

ENGINE_COMMANDS = ("continue", "noop", "fail", "retry")


def to_defn(ir):
    """Render the IR as a long-form orquesta definition (python dict, what WorkflowSpec accepts)."""
    d = {}
    if ir.get("input"):
        d["input"] = [n if not has_default else {n: render(v)} for n, has_default, v in ir["input"]]
    if ir.get("vars"):
        d["vars"] = [{n: render(v)} for n, v in ir["vars"]]
    tasks = {}
    for name, t in ir["tasks"].items():
        td = {}
        if t.get("delay") is not None:
            td["delay"] = render(t["delay"])
        if t.get("join") is not None:
            td["join"] = t["join"]
        if t.get("with"):
            w = t["with"]
            items = render(w["items"])
            if w.get("keys"):
                items = "%s in %s" % (", ".join(w["keys"]), items)
            td["with"] = {"items": items}
            if w.get("concurrency") is not None:
                td["with"]["concurrency"] = render(w["concurrency"])
        if t.get("action") is not None:
            td["action"] = render(t["action"])
        if t.get("input"):
            td["input"] = {k: render(v) for k, v in t["input"].items()}
        if t.get("retry"):
            r = t["retry"]
            td["retry"] = {"count": render(r["count"])}
            if r.get("when") is not None:
                td["retry"]["when"] = render(r["when"])
            if r.get("delay") is not None:
                td["retry"]["delay"] = render(r["delay"])
        nxt = []
        for tr in t.get("next") or []:
            trd = {}
            if tr.get("when") is not None and tr["when"]["e"] != ["true"]:
                trd["when"] = render(tr["when"])
            if tr.get("publish"):
                trd["publish"] = [{n: render(v)} for n, v in tr["publish"]]
            if tr.get("do"):
                trd["do"] = list(tr["do"])
            if not trd:  # an empty mapping is not a valid transition; spell the default out
                trd["do"] = ["continue"]
            nxt.append(trd)
        if nxt:
            td["next"] = nxt
        tasks[name] = td
    d["tasks"] = tasks
    if ir.get("output"):
        d["output"] = [{n: render(v)} for n, v in ir["output"]]
    return d


# ----------------------------------------------------------------------------- static facts about an IR


def targets(tr):
    """Targets of a transition; an omitted/empty `do` means the engine command continue."""
    return list(tr.get("do") or ["continue"])


def inbound(ir):
    """task -> set of distinct tasks with a transition naming it."""
    inb = {n: set() for n in ir["tasks"]}
    for s, t in ir["tasks"].items():
        for tr in t.get("next") or []:
            for tg in targets(tr):
                if tg in inb:
                    inb[tg].add(s)
    return inb


def roots(ir):
    inb = inbound(ir)
    return sorted(n for n in ir["tasks"] if not inb[n])


def reach(ir):
    """task -> set of tasks reachable by >=1 transition (transitive)."""
    succ = {n: set() for n in ir["tasks"]}
    for s, t in ir["tasks"].items():
        for tr in t.get("next") or []:
            for tg in targets(tr):
                if tg in succ:
                    succ[s].add(tg)
    out = {}
    for n in succ:
        seen, stack = set(), list(succ[n])
        while stack:
            x = stack.pop()
            if x in seen:
                continue
            seen.add(x)
            stack.extend(succ[x])
        out[n] = seen
    return out


def is_split(ir, name):
    """Multi-referenced task without join (the engine gives each arrival its own route)."""
    inb = 0
    for s, t in ir["tasks"].items():
        for tr in t.get("next") or []:
            inb += targets(tr).count(name)
    return ir["tasks"][name].get("join") is None and inb > 1
