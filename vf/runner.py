"""Runner: shards a property's parts over worker processes, merges statistics, writes evidence,
replays corpus / known findings, prints the VIOLATION / KNOWN-FINDING lines, sets the exit code.

exit 0  property held on everything explored
exit 1  at least one violation that known_findings.json does not list (VIOLATION line printed)
exit 2  harness problem (import error, generator health, inconclusive) - never a VIOLATION line
"""
import collections
import hashlib
import importlib
import json
import multiprocessing
import os
import sys
import time
import traceback

ROOT = os.path.dirname(os.path.dirname(os.path.abspath(__file__)))
NPROC = int(os.environ.get("VERIF_NPROC", "16"))


class Violation(Exception):
    def __init__(self, kind, detail=None):
        self.kind = kind
        self.detail = detail
        super().__init__("%s: %s" % (kind, json.dumps(detail, default=str)[:2000]))


class HarnessError(Exception):
    pass


class Reject(Exception):
    """The generated case is outside the property's domain (e.g. not inspection-clean)."""


class Stats(object):
    def __init__(self):
        self.evaluations = 0
        self.nontrivial = set()
        self.labels = collections.Counter()
        self.rejected = 0
        self.excluded = collections.Counter()
        self.engine_exceptions = collections.Counter()
        self.samples = []
        self.extra = collections.Counter()
        self.exc_samples = {}

    def engine_exception(self, e, scn):
        key = "%s@%s" % (e.etype, e.site)
        self.engine_exceptions[key] += 1
        if key not in self.exc_samples:
            hist = []
            d = getattr(e, "driver", None)
            if d is not None:
                hist = [(x["op"], x.get("after")) for x in d.steps[-40:]]
            self.exc_samples[key] = {"scenario": scn, "error": str(e), "last_ops": hist, "failing_call": [e.call, getattr(e, "args_repr", "")]}

    def label(self, *names):
        for n in names:
            self.labels[n] += 1

    def mark_nontrivial(self, scn, label=None):
        h = hashlib.blake2b(json.dumps(scn, sort_keys=True, default=str).encode(), digest_size=8).digest()
        self.nontrivial.add(h)
        if label:
            self.labels["nontrivial:" + label] += 1

    def sample(self, obj, cap=3):
        if len(self.samples) < cap:
            self.samples.append(obj)

    def merge(self, o):
        self.evaluations += o.evaluations
        self.nontrivial |= o.nontrivial
        self.labels.update(o.labels)
        self.rejected += o.rejected
        self.excluded.update(o.excluded)
        self.engine_exceptions.update(o.engine_exceptions)
        self.extra.update(o.extra)
        for k, v in o.exc_samples.items():
            self.exc_samples.setdefault(k, v)
        for s in o.samples:
            self.sample(s, cap=4)


class Part(object):
    """One generated sub-check of a property.

    strategy(tier) -> hypothesis strategy of JSON-able scenarios (or None for enumerated parts)
    run(scn, stats) -> raises Violation
    examples = {"quick": n, "thorough": m}  total over all workers
    enumerate(tier) -> optional list of scenarios checked exhaustively (sharded over workers)
    """

    def __init__(self, name, run, strategy=None, examples=None, enumerate=None, rule=""):
        self.name = name
        self.run = run
        self.strategy = strategy
        self.examples = examples or {"quick": 0, "thorough": 0}
        self.enumerate = enumerate
        self.rule = rule


def derive_seed(*parts):
    h = hashlib.sha256(":".join(str(p) for p in parts).encode()).digest()
    return int.from_bytes(h[:8], "big")


def load_known():
    p = os.path.join(ROOT, "known_findings.json")
    if not os.path.exists(p):
        return []
    return json.load(open(p))["findings"]


def match_known(prop, part, scn, v):
    """Return the id of the known finding whose matcher accepts this violation (or None)."""
    from vf import known

    for f in load_known_cached():
        if f.get("status") != "known" or f["property"] != prop:
            continue
        parts = f.get("part")
        if parts and part not in (parts if isinstance(parts, list) else [parts]):
            continue
        m = getattr(known, f["matcher"])
        try:
            if m(scn, v):
                return f["id"]
        except Exception:  # a matcher that cannot decide does not match
            continue
    return None


_KNOWN = None


def load_known_cached():
    global _KNOWN
    if _KNOWN is None:
        _KNOWN = load_known()
    return _KNOWN


def shrink_simple(part, scn, stats, prop):
    """Library-free reducer for the quick tier: shorten `choices`, drop outcome rows."""

    def fails(s):
        try:
            part.run(s, Stats())
        except Reject:
            return False
        except Violation as v:
            return not match_known(prop, part.name, s, v)
        except Exception:
            return False
        return False

    best = scn
    if not isinstance(scn, dict):
        return best
    budget = [60]

    def attempt(cand):
        nonlocal best
        if budget[0] <= 0:
            return False
        budget[0] -= 1
        if fails(cand):
            best = cand
            return True
        return False

    if isinstance(best.get("choices"), list):
        lo, hi = 0, len(best["choices"])
        while lo < hi and budget[0] > 0:
            mid = (lo + hi) // 2
            cand = dict(best, choices=best["choices"][:mid])
            if attempt(cand):
                hi = mid
            else:
                lo = mid + 1
        ch = list(best["choices"])
        for i in range(len(ch)):
            if ch[i] != 0 and budget[0] > 0:
                c2 = list(best["choices"])
                c2[i] = 0
                attempt(dict(best, choices=c2))
    if isinstance(best.get("outcomes"), dict):
        for k in list(best["outcomes"]):
            o = dict(best["outcomes"])
            o.pop(k)
            attempt(dict(best, outcomes=o))
    return best


def _make_body(prop, part, stats, holder):
    def body(scn):
        stats.evaluations += 1
        try:
            part.run(scn, stats)
        except Reject:
            stats.evaluations -= 1
            stats.rejected += 1
        except Violation as v:
            k = match_known(prop, part.name, scn, v)
            if k:
                stats.excluded[k] += 1
                return
            holder["fail"] = (scn, v)
            raise

    return body


def _worker(args):
    prop, tier, seed, widx, nworkers = args
    sys.setrecursionlimit(10000)
    os.environ.setdefault("PYTHONHASHSEED", "0")
    out = {"stats": {}, "failures": [], "error": None}
    try:
        import hypothesis
        from hypothesis import HealthCheck, Phase, given, settings

        mod = importlib.import_module("vf.props.%s" % prop.lower())
        for part in mod.PARTS:
            stats = Stats()
            out["stats"][part.name] = stats
            # ---- enumerated (exhaustive) sub-space, sharded
            if part.enumerate is not None:
                cases = part.enumerate(tier)
                for i, scn in enumerate(cases):
                    if i % nworkers != widx:
                        continue
                    stats.evaluations += 1
                    try:
                        part.run(scn, stats)
                    except Reject:
                        stats.evaluations -= 1
                        stats.rejected += 1
                    except Violation as v:
                        k = match_known(prop, part.name, scn, v)
                        if k:
                            stats.excluded[k] += 1
                            continue
                        out["failures"].append((part.name, scn, v.kind, v.detail))
                        break
                continue
            total = part.examples.get(tier, 0)
            n = total // nworkers + (1 if widx < total % nworkers else 0)
            if n <= 0:
                continue
            holder = {}
            phases = [Phase.explicit, Phase.generate] + ([Phase.shrink] if tier == "thorough" else [])

            test = given(scn=part.strategy(tier))(_make_body(prop, part, stats, holder))
            test = settings(
                max_examples=n,
                database=None,
                deadline=None,
                derandomize=False,
                phases=phases,
                report_multiple_bugs=False,
                suppress_health_check=list(HealthCheck),
                verbosity=hypothesis.Verbosity.quiet,
            )(test)
            test = hypothesis.seed(derive_seed(seed, prop, part.name, widx))(test)
            try:
                test()
            except Violation:
                scn, v = holder["fail"]
                if tier != "thorough":
                    scn2 = shrink_simple(part, scn, stats, prop)
                    if scn2 is not scn:
                        try:
                            part.run(scn2, Stats())
                        except Violation as v2:
                            scn, v = scn2, v2
                out["failures"].append((part.name, scn, v.kind, v.detail))
            except hypothesis.errors.Unsatisfiable as e:
                out["error"] = "generator unsatisfiable in %s: %s" % (part.name, e)
    except Exception:  # noqa
        out["error"] = traceback.format_exc()
    return out


def write_replay(prop, part, scn, kind, detail):
    d = os.path.join(ROOT, "out", prop)
    os.makedirs(d, exist_ok=True)
    body = {"property": prop, "part": part, "kind": kind, "detail": detail, "scenario": scn}
    blob = json.dumps(body, indent=1, sort_keys=True, default=str)
    name = hashlib.sha1(blob.encode()).hexdigest()[:12] + ".json"
    p = os.path.join(d, name)
    with open(p, "w") as f:
        f.write(blob)
    return p


def run_single(prop, part_name, scn):
    mod = importlib.import_module("vf.props.%s" % prop.lower())
    part = [p for p in mod.PARTS if p.name == part_name][0]
    part.run(scn, Stats())


def replay(prop, path):
    body = json.load(open(path))
    try:
        run_single(prop, body["part"], body["scenario"])
    except Reject:
        print("replay: scenario is outside the domain on this tree (rejected)")
        return 0
    except Violation as v:
        k = match_known(prop, body["part"], body["scenario"], v)
        if k:
            print("KNOWN-FINDING: property=%s %s" % (prop, k))
            return 0
        print("violation reproduced: %s" % v)
        print("VIOLATION property=%s replay=%s" % (prop, path))
        return 1
    print("replay passed: no violation")
    return 0


def main(prop, tier):
    t0 = time.time()
    seed = int(os.environ.get("VERIF_SEED", "1") or "1")
    sys.path.insert(0, ROOT)
    mod = importlib.import_module("vf.props.%s" % prop.lower())
    violations = []
    known_lines = []
    corpus_n = 0

    # 1. corpus (regression tier): every stored scenario must pass
    cdir = os.path.join(ROOT, "corpus", prop)
    if os.path.isdir(cdir):
        for fn in sorted(os.listdir(cdir)):
            if not fn.endswith(".json"):
                continue
            body = json.load(open(os.path.join(cdir, fn)))
            corpus_n += 1
            try:
                run_single(prop, body["part"], body["scenario"])
            except Violation as v:
                if not match_known(prop, body["part"], body["scenario"], v):
                    violations.append((body["part"], body["scenario"], v.kind, v.detail, "corpus/" + fn))

    # 2. known findings: replay pinned scenarios, print the KNOWN-FINDING lines
    reproduced = []
    for f in load_known_cached():
        if f["property"] != prop or f.get("status") != "known":
            continue
        fpart = f["part"][0] if isinstance(f["part"], list) else f["part"]
        try:
            run_single(prop, fpart, f["scenario"])
        except Violation as v:
            if match_known(prop, fpart, f["scenario"], v) == f["id"]:
                known_lines.append("KNOWN-FINDING: property=%s %s: %s" % (prop, f["id"], f["what"]))
                reproduced.append(f["id"])
            else:
                violations.append((fpart, f["scenario"], v.kind, v.detail, "known:" + f["id"]))

    # 3. generated search
    nworkers = NPROC
    ctx = multiprocessing.get_context("fork")
    with ctx.Pool(nworkers) as pool:
        results = pool.map(_worker, [(prop, tier, seed, w, nworkers) for w in range(nworkers)])
    merged = collections.OrderedDict()
    errors = []
    for r in results:
        if r["error"]:
            errors.append(r["error"])
        for name, s in r["stats"].items():
            merged.setdefault(name, Stats()).merge(s)
        for part, scn, kind, detail in r["failures"]:
            violations.append((part, scn, kind, detail, "generated"))

    total = Stats()
    for s in merged.values():
        total.merge(s)
    if total.exc_samples:
        d = os.path.join(ROOT, "out", prop)
        os.makedirs(d, exist_ok=True)
        for k, v in total.exc_samples.items():
            fn = "exc_" + "".join(ch if ch.isalnum() else "_" for ch in k) + ".json"
            json.dump(v, open(os.path.join(d, fn), "w"), indent=1, default=str)

    # 4. report
    for line in known_lines:
        print(line)
    seen = set()
    for part, scn, kind, detail, origin in violations:
        p = write_replay(prop, part, scn, kind, detail)
        if p in seen:
            continue
        seen.add(p)
        if len(seen) <= 5:
            print("violation (%s, part %s): %s %s" % (origin, part, kind, json.dumps(detail, default=str)[:600]))
            print("VIOLATION property=%s replay=%s" % (prop, p))

    parts_meta = {p.name: p for p in mod.PARTS}
    exhaustive_parts = [p.name for p in mod.PARTS if p.enumerate is not None]
    ev = {
        "property_id": prop,
        "tier": tier,
        "seed": seed,
        "level": "exploration",
        "coverage": {
            "evaluations": total.evaluations + corpus_n,
            "distinct_nontrivial": len(total.nontrivial),
            "rule": getattr(mod, "RULE", ""),
            "samples": total.samples[:5],
            "labels": dict(total.labels.most_common()),
            "per_part": {
                n: {
                    "evaluations": s.evaluations,
                    "distinct_nontrivial": len(s.nontrivial),
                    "rule": parts_meta[n].rule,
                    "rejected_by_inspection": s.rejected,
                    "excluded_known": dict(s.excluded),
                    "engine_exception_cases": dict(s.engine_exceptions),
                    "extra": dict(s.extra),
                }
                for n, s in merged.items()
            },
            "exhaustive_parts": exhaustive_parts,
            "exhaustive": False,
            "corpus_replayed": corpus_n,
            "rejected_by_inspection": total.rejected,
            "excluded_known": dict(total.excluded),
            "engine_exception_cases": dict(total.engine_exceptions),
            "known_findings_reproduced": reproduced,
            "workers": nworkers,
        },
        "assumptions": getattr(mod, "ASSUMPTIONS", []),
        "wall_s": round(time.time() - t0, 2),
        "violations": len(seen),
    }
    os.makedirs(os.path.join(ROOT, "evidence"), exist_ok=True)
    with open(os.path.join(ROOT, "evidence", "%s.json" % prop), "w") as f:
        json.dump(ev, f, indent=1, sort_keys=True, default=str)

    print(
        "%s %s seed=%d: %d evaluations, %d distinct non-trivial, %d rejected, excluded=%s, engine_exc=%s, %.1fs"
        % (prop, tier, seed, ev["coverage"]["evaluations"], len(total.nontrivial), total.rejected, dict(total.excluded), dict(total.engine_exceptions), time.time() - t0)
    )
    if errors and not seen:
        print("HARNESS ERROR:\n" + errors[0])
        return 2
    if seen:
        if len(seen) > 5:
            print("(%d more violation replays under %s)" % (len(seen) - 5, os.path.join(ROOT, "out", prop)))
        return 1
    # generator health: a check that explored nothing non-trivial must not pass silently
    if total.evaluations and total.rejected > 0.3 * (total.evaluations + total.rejected):
        print("HARNESS ERROR: rejection rate too high (%d of %d)" % (total.rejected, total.evaluations + total.rejected))
        return 2
    if len(total.nontrivial) < 2:
        print("HARNESS ERROR: fewer than 2 non-trivial cases")
        return 2
    return 0
