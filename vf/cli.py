import os
import sys


def main(argv):
    if len(argv) < 2:
        print(__doc__ or "usage: check <ID> quick|thorough | <ID> --replay <file>")
        return 2
    prop = argv[0].upper()
    import orquesta

    src = os.environ.get("ORQUESTA_SRC", "/repo")
    if not os.path.abspath(orquesta.__file__).startswith(os.path.abspath(src) + "/"):
        print("HARNESS ERROR: orquesta imported from %s, expected under %s" % (orquesta.__file__, src))
        return 2
    import logging

    logging.disable(logging.CRITICAL)
    from vf import runner

    try:
        if argv[1] == "--replay":
            return runner.replay(prop, argv[2])
        if argv[1] not in ("quick", "thorough"):
            print("unknown tier %s" % argv[1])
            return 2
        return runner.main(prop, argv[1])
    except Exception:  # noqa
        import traceback

        print("HARNESS ERROR:\n" + traceback.format_exc())
        return 2


if __name__ == "__main__":
    sys.exit(main(sys.argv[1:]))
