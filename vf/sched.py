"""Choice-list scheduler: turns (definition, outcome table, list of small integers) into a history.

At every step the enabled operations are computed from the harness ledger in a canonical order
and `choices[i] % len(enabled)` is taken, so a scenario is plain JSON, replays without
Hypothesis and shrinks towards the lock-step schedule (0 = poll, small = oldest first).
When the list is exhausted the run is finished deterministically.
"""
from orquesta import statuses as st

from vf import provider

DEFAULT_FLAGS = {
    "pause": 0,  # max number of pause requests
    "cancel": 0,  # max number of cancel requests
    "restore": 0,  # weight of restore op
    "pending": 0,  # weight of reporting an in-flight plain action pending
    "interim": 0,  # in-flight actions may report the intermediate status canceling while the workflow is canceling
    "badreq": 0,  # weight of a (probably) forbidden status request
    "abend": 1,  # allow timeout/abandoned/canceled reports as outcomes
    "eager_poll": 0,  # poll after every op automatically (only completion order varies)
    "max_steps": 160,
    "finish": 1,  # finish the run deterministically after the choices
    "resume_style": 0,
    "tok": "seq",  # "seq": unique result token per completion, "task": token is the task name
}

BADREQ = [st.SUCCEEDED, st.REQUESTED, st.SCHEDULED, st.PAUSED, st.RESUMING, st.RUNNING, st.CANCELED, st.DELAYED, st.PENDING, st.FAILED, st.PAUSING, st.CANCELING]


class Run(object):
    """State of one scheduled run (on top of a Driver)."""

    def __init__(self, drv, scn, flags=None):
        self.d = drv
        self.scn = scn
        self.flags = dict(DEFAULT_FLAGS)
        self.flags.update(scn.get("flags") or {})
        self.flags.update(flags or {})
        self.outcomes = {k: [list(x) for x in v] for k, v in (scn.get("outcomes") or {}).items()}  # own copy: checks edit it
        self.count = {}  # task -> completions so far
        self.seq = 0
        self.pauses = 0
        self.cancels = 0
        self.pause_requested = False
        self.cancel_requested = False
        self.history = []  # concrete ops applied
        self.nsteps = 0
        self.controls = sorted([list(c) for c in (scn.get("controls") or [])])
        self.interim_sent = set()

    # ---------------------------------------------------------------- outcome of an action
    def outcome(self, a):
        task, route, item = a
        key = "%s#%s" % (task, item)
        tab = self.outcomes.get(key) or self.outcomes.get(task) or [["succeeded", 200]]
        n = self.count.get(key if key in self.outcomes else task, 0)
        s, code = tab[n % len(tab)]
        self.count[key if key in self.outcomes else task] = n + 1
        self.seq += 1
        if self.flags["tok"] == "task":
            tok = task if item is None else "%s[%s]" % (task, item)
        else:
            tok = "%s.%d" % (task, self.seq)
        if not self.flags["abend"] and s in (st.EXPIRED, st.ABANDONED, st.CANCELED):
            s = st.FAILED
        if tuple(a) in self.interim_sent:
            s = st.CANCELED  # an action that reported canceling ends canceled (as st2 does)
        return s, {"tok": tok, "code": code}

    # ---------------------------------------------------------------- enabled operations
    def enabled(self):
        d, f = self.d, self.flags
        s = d.status()
        ops = [("poll",)]
        for a in d.inflight:
            ops.append(("done", a))
            ops.append(("done", a))
        for a in d.dormant:
            ops.append(("done", a))
        for a in getattr(d, "unstarted", ()):
            ops.append(("begin", a))
        if f["pending"]:
            for a in d.inflight[: f["pending"]]:
                if a[2] is None and tuple(a) not in self.interim_sent:  # (an action that is canceling does not turn pending)
                    ops.append(("pend", a))
        if f["pending"]:
            # (lazy first reports: the very first report of an action may be `pending`)
            for a in getattr(d, "unstarted", ()):
                if a[2] is None:
                    ops.extend([("pend", a)] * 3)
        if f["interim"] and s == st.CANCELING:
            for a in d.inflight:
                if tuple(a) not in self.interim_sent and list(a) not in getattr(d, "unstarted", ()):
                    ops.append(("interim", a))
        if self.pauses < f["pause"] and s in (st.RUNNING, st.RESUMING):
            ops.append(("pause",))
            if d.inflight:
                ops.append(("pause",))
        if s in (st.PAUSED, st.PAUSING) and self.pause_requested and not d.dormant:
            ops.append(("resume",))
        if self.cancels < f["cancel"] and s in (st.RUNNING, st.PAUSING, st.PAUSED, st.RESUMING):
            ops.append(("cancel",))
            if f["cancel"] > 1 and d.inflight:
                ops.append(("cancel",))
        for _ in range(f["restore"]):
            ops.append(("restore",))
        for _ in range(f["badreq"]):
            ops.append(("badreq",))
        return ops

    def concrete(self, sel, choice=0):
        k = sel[0]
        if k == "poll":
            return {"op": "poll"}
        if k == "done":
            s, r = self.outcome(sel[1])
            return {"op": "done", "a": list(sel[1]), "status": s, "result": r}
        if k == "interim":
            # the action has been asked to stop and says so; its final report (canceled) follows later
            self.interim_sent.add(tuple(sel[1]))
            return {"op": "report", "a": list(sel[1]), "status": st.CANCELING}
        if k == "begin":
            return {"op": "begin", "a": list(sel[1])}
        if k == "pend":
            return {"op": "report", "a": list(sel[1]), "status": st.PENDING}
        if k == "pause":
            self.pauses += 1
            self.pause_requested = True
            return {"op": "req", "status": st.PAUSING if not (choice // 7) % 3 == 2 else st.PAUSED}
        if k == "resume":
            return {"op": "req", "status": st.RESUMING if (choice // 7) % 2 == 0 else st.RUNNING}
        if k == "cancel":
            self.cancels += 1
            self.cancel_requested = True
            return {"op": "req", "status": st.CANCELING if (choice // 7) % 3 else st.CANCELED}
        if k == "restore":
            return {"op": "restore"}
        if k == "badreq":
            return {"op": "req", "status": BADREQ[(choice // 11) % len(BADREQ)], "bad": True}
        raise ValueError(sel)

    def step(self, op, _ctl=False):
        self.history.append(op)
        rec = self.d.apply(op)
        if op["op"] == "req" and not rec["rejected"]:
            if op["status"] in (st.PAUSING, st.PAUSED):
                self.pause_requested = True
            if op["status"] in (st.CANCELING, st.CANCELED):
                self.cancel_requested = True
        if not _ctl:
            self.nsteps += 1
            self._fire_controls()
        return rec

    def _fire_controls(self):
        """Control requests placed at explicit positions of the history (scn['controls'])."""
        d = self.d
        # a pending rerun fires at the first opportunity after its position (as soon as the workflow has failed)
        if getattr(self, "_pending_rerun", False) and d.status() == st.FAILED:
            self._pending_rerun = False
            self.step({"op": "rerun", "tasks": None}, _ctl=True)
        while self.controls and self.controls[0][0] <= self.nsteps:
            pos, kind = self.controls.pop(0)
            if "+" in kind:
                # compound placement: several requests back to back (e.g. cancel right after a resume, so that
                # the request is made while the workflow reports resuming)
                for j, k2 in enumerate(kind.split("+")):
                    self.controls.insert(j, [pos, k2])
                continue
            s = d.status()
            if kind == "rerun" and s != st.FAILED:
                self._pending_rerun = True
                continue
            if kind == "pause" and s in (st.RUNNING, st.RESUMING):
                self.step({"op": "req", "status": st.PAUSING}, _ctl=True)
            elif kind == "pause2" and s in (st.RUNNING, st.RESUMING):
                self.step({"op": "req", "status": st.PAUSED}, _ctl=True)
            elif kind == "cancel" and s in (st.RUNNING, st.PAUSING, st.PAUSED, st.RESUMING):
                self.step({"op": "req", "status": st.CANCELING}, _ctl=True)
            elif kind == "cancel2" and s in (st.RUNNING, st.PAUSING, st.PAUSED, st.RESUMING):
                self.step({"op": "req", "status": st.CANCELED}, _ctl=True)
            elif kind == "resume" and s in (st.PAUSED, st.PAUSING) and self.pause_requested and not d.dormant:
                # (both documented ways of resuming: `resuming` and `running`)
                self.step({"op": "req", "status": st.RESUMING if pos % 2 == 0 else st.RUNNING}, _ctl=True)
            elif kind == "restore":
                self.step({"op": "restore"}, _ctl=True)
            elif kind == "rerun" and s == st.FAILED:
                # a rerun requested as soon as the workflow has failed, even with stale actions in flight
                self.step({"op": "rerun", "tasks": None}, _ctl=True)

    def at_rest(self):
        return self.d.status() in provider.TERMINAL and self.d.quiescent()

    # ---------------------------------------------------------------- main loop
    def run(self, stop=None):
        """Apply the choice list, then finish.  `stop(run)` may end the run early (truncation)."""
        d, f = self.d, self.flags
        if not d.started:
            d.start()
        steps = 0
        # a scenario may carry an explicit history (hand-written pinned scenarios, shrunk replays)
        for op in self.scn.get("history") or []:
            if stop and stop(self):
                break
            if op["op"] == "done" and "status" not in op:
                s_, r_ = self.outcome(op["a"])
                op = dict(op, status=s_, result=r_)
            self.step(op)
        for ch in self.scn.get("choices") or []:
            if steps >= f["max_steps"] or self.at_rest() or (stop and stop(self)):
                break
            ops = self.enabled()
            sel = ops[ch % len(ops)]
            self.step(self.concrete(sel, ch))
            steps += 1
            if f["eager_poll"] and sel[0] != "poll" and not self.at_rest() and not (stop and stop(self)):
                self.step({"op": "poll"})
                steps += 1
        if f["finish"]:
            self.finish(stop)
        return self

    def finish(self, stop=None, limit=400):
        """Deterministic completion: poll; complete the oldest action; resume when paused."""
        d = self.d
        n = 0
        while n < limit and not (stop and stop(self)):
            n += 1
            rec = self.step({"op": "poll"})
            if d.inflight:
                a = d.inflight[0]
            elif d.dormant:
                a = d.dormant[0]
            else:
                a = None
            if a is not None:
                s, r = self.outcome(a)
                self.step({"op": "done", "a": list(a), "status": s, "result": r})
                continue
            if rec["offers"]:
                continue
            if d.status() in (st.PAUSED,) and self.pause_requested:
                r = self.step({"op": "req", "status": st.RESUMING if self.nsteps % 2 == 0 else st.RUNNING})
                self.pause_requested = False
                if r["rejected"]:
                    break
                continue
            break


def replay_history(drv, history):
    """Apply a list of concrete ops (library-free replay)."""
    if not drv.started:
        drv.start()
    for op in history:
        drv.apply(op)
    return drv
