"""Child process of the C19 cross-process differential: replays concrete histories with the
library-free driver under its own PYTHONHASHSEED and returns per-step digests (one JSON line per
request on stdin, one JSON line per answer on stdout)."""
import hashlib
import json
import logging
import sys

logging.disable(logging.CRITICAL)


def digest(x):
    return hashlib.sha1(json.dumps(x, sort_keys=True, default=str).encode()).hexdigest()[:16]


def run(req):
    import copy

    from orquesta.specs import native as native_specs

    from vf import provider

    out = {"steps": []}
    defn = req["defn"]
    spec = native_specs.WorkflowSpec(copy.deepcopy(defn))
    insp = spec.inspect()
    out["inspect"] = digest(insp)
    out["inspect_raw"] = insp
    if insp:
        return out
    from orquesta.composers import native as composer

    out["graph"] = digest(composer.WorkflowComposer.compose(spec).serialize())
    drv = provider.Driver(defn, req.get("inputs") or {}, item_task_running=bool(req.get("style", 0) & 1), lifecycle=(req.get("style", 0) >> 1) & 1, spec=spec)

    def ob(d, rec):
        st = d.c.serialize()
        out["steps"].append({
            "status": rec["after"],
            "rejected": rec["rejected"],
            "offers": digest([(o["id"], o["route"], o["items"], o["actions"], o["delay"], o["ctx"]) for o in rec["offers"]]),
            "offer_ids": [(o["id"], o["route"], o["items"]) for o in rec["offers"]],
            "state": digest(st["state"]),
            "errors": digest(st["errors"]),
            "output": digest(st["output"]),
            "all": digest(st),
        })

    drv.observers.append(ob)
    try:
        drv.start()
        for op in req["history"]:
            drv.apply(op)
    except provider.EngineException as e:
        out["exception"] = "%s@%s" % (e.etype, e.site)
    except (provider.KnownTrigger, provider.Anomaly) as e:
        out["exception"] = repr(e)
    except Exception as e:  # the ledger could not follow the history: that is a divergence too
        out["exception"] = "replay:" + repr(e)
    return out


def main():
    for line in sys.stdin:
        line = line.strip()
        if not line:
            continue
        try:
            ans = run(json.loads(line))
        except Exception as e:  # noqa
            ans = {"fatal": repr(e)}
        sys.stdout.write(json.dumps(ans, default=str) + "\n")
        sys.stdout.flush()


if __name__ == "__main__":
    main()
