"""C01 - every task execution is justified by the definition, exactly once.

Oracle: the due-work ledger of vf.refsem.Flow, recomputed from provider-side facts only.
 (a) safety at every poll: each newly offered (task, route) consumes one due execution of that task
     (a root, or one satisfied transition of a completed predecessor, or one firing of a join instance);
     an offer with none is an unjustified or duplicated execution;
 (b) exactly once: an execution already dispatched is never offered again;
 (c) completeness: when the workflow reports succeeded the ledger is empty (nothing lost), hence the
     executed multiset equals what the definition prescribes for the outcomes that occurred.
On failed/canceled only (a) and (b) are asserted: fail-fast legitimately leaves due work undone.
"""
from vf import gen, refsem
from vf.props import common
from vf.runner import Part, Violation

RULE = (
    "inspection-clean random definitions (sequences, forks, result/status decisions, join all / join N, splits, "
    "noop/fail/continue, one counter-bounded loop) x outcome tables (succeeded/failed/timeout/abandoned, result code) "
    "x choice-list schedules (poll timing and completion order vary); non-trivial = >=2 actions in flight completed "
    "out of dispatch order, or a decision with a false branch, or >=2 loop iterations, or a split task executed >=2 "
    "times, or a join that fired; distinct by hash of definition+outcomes+schedule"
)
ASSUMPTIONS = [
    "conditions are drawn from the closed xl grammar whose truth value the model computes exactly",
    "late arrival at an already fired join instance (join N < inbound) is known finding R1 owned by C07: the run is checked up to that call and abandoned there (counted as excluded_known)",
]


def run(scn, stats):
    fo = refsem.FlowObserver(scn["ir"])
    flow = fo.flow
    state = {"ooo": False, "false_branch": False}

    def check(drv, rec):
        if flow.problems:
            kind, detail = flow.problems[0]
            raise Violation(kind, {"detail": detail, "definition": drv.defn, "history": common.history_summary(_R(drv))})
        if rec["after"] == "succeeded" and not flow.late_arrivals and (flow.open or drv.inflight):
            raise Violation("succeeded-with-execution-in-flight", {"open": [list(k) for k in flow.open], "definition": drv.defn, "history": common.history_summary(_R(drv))})
        if rec["op"]["op"] == "done":
            a = rec["op"]["a"]
            if drv.dispatched and len(drv.inflight) >= 1:
                # out-of-dispatch-order completion: something dispatched earlier is still in flight
                idx = drv.dispatched.index(tuple(a)) if tuple(a) in drv.dispatched else -1
                if any(drv.dispatched.index(tuple(x)) < idx for x in drv.inflight if tuple(x) in drv.dispatched):
                    state["ooo"] = True
            info = fo.last or {}
            t = scn["ir"]["tasks"][a[0]]
            if info.get("task_done") and len(info.get("satisfied", [])) < len(t.get("next") or []):
                state["false_branch"] = True

    def stop(r):
        return bool(flow.late_arrivals)

    defn, r = common.run(scn, stats, observers=[fo, check], stop=stop)
    if flow.late_arrivals:
        stats.excluded["R1"] += 1
    status = r.d.status()
    stats.label("status:" + status)
    if r.engine_exception is None and not flow.late_arrivals and not r.truncated:
        if status == "succeeded" and flow.has_due():
            raise Violation("lost-execution", {"due": flow.due_view(), "definition": defn, "history": common.history_summary(r)})
        if status == "succeeded" and flow.open:
            raise Violation("succeeded-with-open-execution", {"open": [list(k) for k in flow.open], "definition": defn})
        if status == "failed" and flow.fail_cmds == 1 and not flow.unhandled and not flow.runtime_error and r.at_rest():
            # the tasks listed beside the fail command are the documented clean-up tasks: their transitions were
            # satisfied and the workflow failed for no other reason, so each of them runs
            ran = {t for t, rt_, i in r.d.dispatched}
            lost = sorted(tg for tg in flow.cleanup_ok if scn["ir"]["tasks"][tg].get("join") is None and tg not in ran)
            if lost:
                raise Violation("clean-up-task-beside-fail-command-never-ran", {"tasks": lost, "definition": defn, "history": common.history_summary(r)})
            if flow.cleanup_ok:
                stats.label("clean-up-beside-fail-ran")
    labels = []
    if state["ooo"]:
        labels.append("out-of-order-completion")
    if state["false_branch"]:
        labels.append("decision-with-false-branch")
    if any(v >= 2 for k, v in flow.executed.items() if k in flow.body):
        labels.append("loop>=2-iterations")
    if any(v >= 2 for k, v in flow.executed.items() if flow.split.get(k)):
        labels.append("split-executed>=2")
    if "join-fired" in flow.events:
        labels.append("join-fired")
    for lab in labels:
        stats.label(lab)
    if labels:
        stats.mark_nontrivial(scn)
        stats.sample({"definition": defn, "outcomes": scn["outcomes"], "history": common.history_summary(r, 40), "executed": dict(flow.executed)})


class _R(object):
    def __init__(self, d):
        self.d = d


CFG = gen.cfg(p_loop=0.3, name_mix=True)


def strategy(tier):
    return gen.scenario(CFG, flags={}, max_choices=60)


def strat_directed(tier):
    # split upstream of a fork whose branches differ in length and join again: one route runs ahead of the other
    return gen.directed_scenario(gen.fork_join_ir(split=True), max_choices=60)


PARTS = [
    Part("ledger", run, strategy, {"quick": 2000, "thorough": 20000}, rule=RULE),
    Part("split-fork-join", run, strat_directed, {"quick": 1000, "thorough": 10000}, rule="directed: two routes through the same fork-join, branches of different length, arbitrary schedules"),
]
