"""C19 - conducting is deterministic; asking for next tasks is a pure query.

Part `xproc` (cross-process differential): the parent generates a scenario and runs it; the concrete
history is then replayed, with the library-free driver, in persistent child interpreters started with
different PYTHONHASHSEED values (0, 1, 4242 and a seed-derived one).  Per step the children return
digests of the offered tasks (in order, with rendered actions and context), the persisted state,
errors and output; plus digests of inspect() and of the composed graph.  All children and the parent
must agree.  JSON objects are compared canonically (key order is not part of JSON); every list -
offered tasks, sequence, staged, routes, errors, inspection entries - is compared in order.
Definitions include inspection-rejected mutants (several undefined targets / unassigned variables at
once), for which the inspection report itself must be identical across hash seeds.

Part `idempotent`: at every poll point of generated histories two consecutive get_next_tasks() return
equal answers, and the second call leaves conductor.serialize() exactly as the first call left it.
"""
import atexit
import copy
import json
import os
import subprocess
import sys

from hypothesis import strategies as st

from vf import gen, lang, provider, refsem, sched
from vf.props import common
from vf.replay_child import digest, run as run_here
from vf.runner import Part, Reject, Violation

RULE = (
    "xproc: random definitions (accepted, and rejected mutants with >=2 faults) x histories incl. pause/cancel/"
    "restore and a rerun with an explicit list of >=2 tasks, replayed in 4 interpreters with different hash seeds; "
    "non-trivial = >=2 inspection errors, or >=3 tasks offered in one poll, or a join with >=3 inbound tasks, or a "
    "rerun with >=2 requests. idempotent: every poll point of generated histories; non-trivial = a poll point with a "
    "with-items task or a retry entry staged; distinct by hash"
)
ASSUMPTIONS = ["children replay the parent's concrete history through the same library-free driver; digests are SHA-1 of canonical JSON"]

_CHILDREN = {}


def child(hs):
    p = _CHILDREN.get(hs)
    if p is None or p.poll() is not None:
        env = dict(os.environ)
        env["PYTHONHASHSEED"] = str(hs)
        p = subprocess.Popen([sys.executable, "-m", "vf.replay_child"], stdin=subprocess.PIPE, stdout=subprocess.PIPE, env=env, text=True, bufsize=1)
        _CHILDREN[hs] = p
    return p


def _cleanup():
    for p in _CHILDREN.values():
        try:
            p.stdin.close()
            p.terminate()
        except Exception:
            pass


atexit.register(_cleanup)


def ask(hs, req):
    p = child(hs)
    p.stdin.write(json.dumps(req, default=str) + "\n")
    p.stdin.flush()
    line = p.stdout.readline()
    if not line:
        raise RuntimeError("replay child (hash seed %s) died" % hs)
    return json.loads(line)


def mutate(defn, faults):
    """Make an inspection-rejected mutant with several faults at once."""
    d = copy.deepcopy(defn)
    names = sorted(d["tasks"])
    for i, f in enumerate(faults):
        t = d["tasks"][names[f % len(names)]]
        kind = (f // 7) % 4
        if kind == 3:
            # several expressions of one property refer to the same unassigned variable
            inp = t.setdefault("input", {})
            for j in range(3):
                inp["same%d_%d" % (i, j)] = "<%% ctx().shared%d + %d %%>" % (i, j)
            t.setdefault("next", []).append({"publish": [{"s%d" % i: "<%% ctx().shared%d %%>" % i}, {"u%d" % i: "{{ ctx().shared%d + 1 }}" % i}]})
        elif kind == 0:
            t.setdefault("next", []).append({"do": ["nosuch%d" % i, "missing%d" % i]})
        elif kind == 1:
            t.setdefault("input", {})["bad%d" % i] = "<%% ctx(undef%d) + ctx(zz%d) %%>" % (i, i)
        else:
            t.setdefault("next", []).append({"when": "{{ ctx('ghost%d') }}" % i, "publish": [{"q%d" % i: "<%% ctx(nope%d) %%>" % i}]})
    return d


def run_xproc(scn, stats):
    defn = lang.to_defn(scn["ir"])
    if scn.get("faults"):
        defn = mutate(defn, scn["faults"])
    hist = []
    labels = set()
    n_insp = 0
    try:
        s2 = dict(scn, defn=defn)
        _, drv = common.build(s2, stats, need_clean=False)
        insp = drv.spec.inspect()
        n_insp = sum(len(v) for v in insp.values())
        if not insp:
            fo = refsem.FlowObserver(scn["ir"])
            drv.observers.append(fo)
            r = sched.Run(drv, scn)
            try:
                r.run()
                if r.at_rest() and drv.status() == "failed" and len(fo.flow.unhandled) >= 2:
                    r.step({"op": "rerun", "tasks": [[t, rt, False] for t, rt in fo.flow.unhandled]})
                    labels.add("rerun>=2-requests")
                    r.outcomes = {}
                    r.finish()
            except (provider.KnownTrigger, provider.Anomaly, provider.EngineException):
                pass
            hist = r.history
            if any(len(s["offers"]) >= 3 for s in drv.steps):
                labels.add(">=3-offered-at-once")
    except Violation:
        raise
    if n_insp >= 2:
        labels.add(">=2-inspection-errors")
    inb = lang.inbound(scn["ir"])
    if any(t.get("join") is not None and len(inb[n]) >= 3 for n, t in scn["ir"]["tasks"].items()):
        labels.add("join>=3-inbound")
    req = {"defn": defn, "inputs": scn.get("inputs") or {}, "history": hist, "style": scn.get("style", 0)}
    ref = json.loads(json.dumps(run_here(req), default=str))
    seeds = [0, 1, 4242, 100 + (scn.get("hs", 0) % 1000)]
    for hs in seeds:
        got = ask(hs, req)
        if "fatal" in got:
            raise Violation("child-failed", {"hash_seed": hs, "error": got["fatal"]})
        if got != ref:
            where = "inspect" if got.get("inspect") != ref.get("inspect") else ("graph" if got.get("graph") != ref.get("graph") else None)
            if where is None:
                for i, (a, b) in enumerate(zip(ref.get("steps", []), got.get("steps", []))):
                    if a != b:
                        where = {"step": i, "op": hist[i - 1] if i else "start", "parent": a, "child": b}
                        break
                else:
                    where = {"lengths": [len(ref.get("steps", [])), len(got.get("steps", []))], "exc": [ref.get("exception"), got.get("exception")]}
            raise Violation("nondeterministic-across-hash-seeds", {"hash_seed": hs, "where": where, "definition": defn, "inspect_parent": ref.get("inspect_raw"), "inspect_child": got.get("inspect_raw")})
    for lab in labels:
        stats.label(lab)
    stats.label("rejected-definition" if n_insp else "accepted-definition")
    if labels:
        stats.mark_nontrivial(scn)
        stats.sample({"definition": defn, "history_len": len(hist), "labels": sorted(labels)})


class Idem(object):
    def __init__(self):
        self.points = 0
        self.interesting = 0

    def __call__(self, drv, rec):
        if rec["op"]["op"] not in ("poll", "done", "req", "restore", "start"):
            return
        # the first probe may lazily initialise item bookkeeping; idempotence is about the 2nd, 3rd...
        a = drv.next_tasks()
        s1 = common.jd(drv.c.serialize())
        b = drv.next_tasks()
        s2 = common.jd(drv.c.serialize())
        c = drv.next_tasks()
        ka = [(t["id"], t["route"], common.jd(t["actions"]), t.get("delay"), common.jd({k: v for k, v in t["ctx"].items() if k != "__state"})) for t in a]
        kb = [(t["id"], t["route"], common.jd(t["actions"]), t.get("delay"), common.jd({k: v for k, v in t["ctx"].items() if k != "__state"})) for t in b]
        kc = [(t["id"], t["route"], common.jd(t["actions"]), t.get("delay"), common.jd({k: v for k, v in t["ctx"].items() if k != "__state"})) for t in c]
        self.points += 1
        st_ = json.loads(s1)["state"]
        if any("items" in x or "retry" in x for x in st_["staged"]):
            self.interesting += 1
        if ka != kb or kb != kc:
            raise Violation("get_next_tasks-not-idempotent", {"first": [k[:2] for k in ka], "second": [k[:2] for k in kb], "third": [k[:2] for k in kc], "definition": drv.defn, "history": common.history_summary(_R(drv))[-20:]})
        if s1 != s2:
            raise Violation("get_next_tasks-changed-state", {"definition": drv.defn, "history": common.history_summary(_R(drv))[-20:], "diff": _diff(json.loads(s1), json.loads(s2))})


class _R(object):
    def __init__(self, d):
        self.d = d


def _diff(a, b, path=""):
    out = []
    if isinstance(a, dict) and isinstance(b, dict):
        for k in sorted(set(a) | set(b)):
            if a.get(k) != b.get(k):
                out.extend(_diff(a.get(k), b.get(k), path + "." + str(k)))
    elif isinstance(a, list) and isinstance(b, list) and len(a) == len(b):
        for i, (x, y) in enumerate(zip(a, b)):
            if x != y:
                out.extend(_diff(x, y, path + "[%d]" % i))
    else:
        out.append({"path": path, "first": a, "second": b})
    return out[:5]


def run_idem(scn, stats):
    ob = Idem()
    defn, r = common.run(scn, stats, observers=[ob])
    stats.label("status:" + r.d.status())
    stats.extra["poll_points"] += ob.points
    if ob.interesting:
        stats.mark_nontrivial(scn)
        stats.sample({"definition": defn, "history": common.history_summary(r, 30), "poll_points": ob.points})


CFG = gen.cfg(items=0.2, retry=0.2, retry_cmd=True, p_loop=0.25, max_tasks=8, dict_vals=True)
CONTROLS = {"pause": 1, "resume": 1, "cancel": 1, "restore": 1}


def strat_xproc(tier):
    base = gen.scenario(CFG, flags={}, max_choices=40, controls=CONTROLS)
    return st.builds(
        lambda s, faults, hs: dict(s, faults=faults, hs=hs),
        base,
        st.one_of(st.just([]), st.just([]), st.lists(st.integers(0, 200), min_size=2, max_size=4)),
        st.integers(0, 999),
    )


def strat_idem(tier):
    return gen.scenario(CFG, flags={"pending": 1}, max_choices=50, controls=CONTROLS)


PARTS = [
    Part("xproc", run_xproc, strat_xproc, {"quick": 480, "thorough": 4800}, rule=RULE),
    Part("idempotent", run_idem, strat_idem, {"quick": 640, "thorough": 6400}, rule="every poll point: three consecutive get_next_tasks() agree and the later ones leave serialize() unchanged"),
]
