"""C07 - a join runs once, and only when its barrier is satisfied.

Oracle (vf.refsem.Flow, provider-side facts only):
  * a join task is offered only when the number of distinct inbound tasks with a satisfied transition
    into it on that route has reached the requirement (all / N): every offer of a join must consume a
    firing of its instance, otherwise it ran early or ran again;
  * once per satisfaction: an instance fires once, whatever the arrival timing (before the join is
    polled, while it runs, after it completed);
  * unreachable: when the run has come to rest (nothing in flight, nothing on offer, model holds no
    due work) with an instance that has >= 1 arrival but never fired, and nothing else made the
    workflow fail or cancel, the status must be failed with an UnreachableJoinError entry naming that
    join - never succeeded, never a non-terminal status.
"""
from vf import gen, refsem
from vf.props import common
from vf.runner import Part, Violation

RULE = (
    "directed fork-join definitions (2..5 branches of length 1..2, join all / N, branches that arrive on success, on "
    "failure, always, by result, twice, or never; optional split upstream so joins exist per route) and general random "
    "definitions, x outcome tables x schedules (poll timing and completion order vary, so the last arrival lands before "
    "the join is polled, while it runs, or after it completed); non-trivial = an arrival at an instance after the join "
    "was dispatched, or a partially satisfied join at rest, or a join per route >= 2; distinct by hash"
)
ASSUMPTIONS = [
    "join N < inbound is generated outside cycles only (inside a cycle a late arrival and a next-iteration arrival are indistinguishable)",
    "known finding R1: a late arrival at a fired join N instance runs the join again; matched narrowly and counted, the run is abandoned there",
]


def run(scn, stats):
    fo = refsem.FlowObserver(scn["ir"])
    flow = fo.flow
    seen = {"late-after-dispatch": False}
    joins = {n for n, t in scn["ir"]["tasks"].items() if t.get("join") is not None}

    def check(drv, rec):
        if flow.problems:
            kind, detail = flow.problems[0]
            task = detail.get("task")
            hist = common.history_summary(_R(drv))
            if task in joins:
                late = [la for la in flow.late_arrivals if la[0] == task and la[1] == detail.get("route")]
                if late:
                    raise Violation("join-ran-again-after-late-arrival", {"join": task, "route": detail.get("route"), "late_from": [la[2] for la in late], "definition": drv.defn, "history": hist})
                raise Violation("join-offered-without-satisfied-barrier", {"join": task, "detail": detail, "model_instances": {"%s|%s" % k: sorted(v["arrived"]) for k, v in flow.joins.items()}, "definition": drv.defn, "history": hist})
            if flow.late_arrivals:
                raise Violation("join-ran-again-after-late-arrival", {"join": flow.late_arrivals[0][0], "downstream": task, "definition": drv.defn, "history": hist})
            raise Violation(kind, {"detail": detail, "definition": drv.defn, "history": hist})
        if flow.late_arrivals:
            seen["late-after-dispatch"] = True

    defn, r = common.run(scn, stats, observers=[fo, check], post_poll=True)
    d = r.d
    status = d.status()
    stats.label("status:" + status)
    partial = flow.partial_joins()
    if r.engine_exception is None and not r.truncated and d.quiescent() and not flow.has_due() and not flow.open:
        if partial and not r.cancel_requested and not flow.canceled_action:
            names = sorted({k[0] for k, _ in partial})
            errs = [e for e in d.c.errors if "UnreachableJoinError" in e.get("message", "")]
            if status == "succeeded":
                raise Violation("succeeded-with-unreachable-join", {"joins": names, "definition": defn, "history": common.history_summary(r)})
            if status not in ("failed", "canceled", "paused"):
                raise Violation("hanging-with-unreachable-join", {"status": status, "joins": names, "definition": defn, "history": common.history_summary(r)})
            if status == "failed" and not flow.must_fail:
                named = {e.get("task_id") for e in errs}
                if not (set(names) & named):
                    raise Violation("failed-without-unreachable-join-error", {"joins": names, "errors": d.c.errors, "definition": defn, "history": common.history_summary(r)})
            stats.label("partial-join-at-rest")
    if r.engine_exception is None and not r.truncated and d.quiescent() and status in ("failed", "succeeded") and not flow.late_arrivals:
        # a join whose barrier was satisfied runs once: at rest none may be left that fired and was never offered,
        # unless something else had stopped the workflow before
        owed = sorted(k for k, v in flow.due.items() if v > 0 and k[0] in joins)
        stopped = flow.must_fail or flow.unhandled or flow.fail_cmd or flow.runtime_error or r.cancel_requested or flow.canceled_action
        if owed and not stopped:
            raise Violation("join-with-satisfied-barrier-never-ran", {"joins": [list(k) for k in owed], "status": status, "errors": [e.get("message") for e in d.c.errors], "definition": defn, "history": common.history_summary(r)})
    labels = []
    if seen["late-after-dispatch"]:
        labels.append("arrival-after-join-dispatched")
    if partial:
        labels.append("partial-join")
    routes = {}
    for (j, rt), v in flow.joins.items():
        routes.setdefault(j, set()).add(rt)
    if any(len(v) >= 2 for v in routes.values()):
        labels.append("join-per-route>=2")
    if "join-fired" in flow.events:
        labels.append("join-fired")
    for lab in labels:
        stats.label(lab)
    if set(labels) & {"arrival-after-join-dispatched", "partial-join", "join-per-route>=2"}:
        stats.mark_nontrivial(scn)
        stats.sample({"definition": defn, "outcomes": scn["outcomes"], "history": common.history_summary(r, 40)})


class _R(object):
    def __init__(self, d):
        self.d = d


def strat_directed(tier):
    # (a pause that lands before the last report and the resume that completes the workflow must still
    # detect a join that can no longer be satisfied)
    return gen.directed_scenario(gen.fork_join_ir(), max_choices=60, controls={"pause": 1, "resume": 1})


def strat_general(tier):
    return gen.scenario(gen.cfg(p_join=0.8, p_loop=0.15), flags={}, max_choices=60)


PARTS = [
    Part("fork-join", run, strat_directed, {"quick": 2000, "thorough": 20000}, rule=RULE),
    Part("general", run, strat_general, {"quick": 1000, "thorough": 10000}, rule="general random definitions with many joins"),
]
