"""C09 - pause and resume are transparent.

Twin runs over one definition and one outcome table.
  H' (paused twin): a choice-list schedule up to a generated position i; there PAUSING (or PAUSED) is
      requested; then a *drain window*: only the actions that were in flight at i report (in a
      generated order, with polls in between); when the last of them has reported the workflow is
      resumed (RESUMING or RUNNING) and the schedule continues to the end.
  H  (plain twin): exactly the same polls and completion reports in the same order, without the two
      requests.  Both twins therefore see the same completions in the same order; only the moment at
      which held-back tasks are dispatched differs (a legal schedule: H simply polls eagerly).
Oracle:
  (1) between the pause request and the resume request no poll of H' returns a task or an item;
  (2) H' reports pausing while something is in flight and leaves it at the call that reports the last
      in-flight action (paused, or failed/canceled if the window contained such an outcome); with
      nothing in flight at i it is paused at once;
  (3) after the resume and one poll, H' has dispatched exactly what H has dispatched at the same
      point of the history ("precisely the work that was held back");
  (4) final status equal; when succeeded, the executed multiset and the error entries equal and every
      output variable with at most one publish event in the run equal; when failed, error entries equal.
"""
import collections

from hypothesis import strategies as st

from vf import lang, gen, provider, refsem, sched
from vf.props import common
from vf.runner import Part, Reject, Violation

RULE = (
    "random definitions (all features incl. with-items, retry, joins, fail commands) x outcome tables x a pause "
    "position i over the whole history x drain order; non-trivial = pause accepted with >= 1 action in flight and >= 1 "
    "task or item held back (offered only after the resume); classes: failure inside the window, items outstanding, "
    "pause before the last report of the workflow; distinct by hash"
)
ASSUMPTIONS = [
    "the drain window removes legitimate order effects (C08) from the comparison: both twins see identical completion orders",
    "executed sets are compared only on success (fail-fast makes them timing dependent by design); output only on variables with <= 1 publish event (dispatch order legitimately decides between independent concurrent writers)",
    "with-items tasks have no concurrency limit here: a limited task that is mid-way at the pause gets further items in the eager twin only, which changes when it completes (the twins would not see the same completions); C12 covers 'no item is offered while pausing or paused'",
    "known findings R17 (no terminal task after pause before the last reporter) and R18 (tasks paused by the workflow pause are not resumed) are matched narrowly and counted",
]


def run(scn, stats):
    defn, drvp = common.build(scn, stats)
    fo = refsem.FlowObserver(scn["ir"])
    drvp.observers.append(fo)
    rp = sched.Run(drvp, dict(scn, controls=[]), {"finish": 0})
    info = {"definition": defn, "outcomes": scn.get("outcomes")}
    labels = set()
    ch = list(scn.get("choices") or [])
    pos = scn.get("pause_at", 0)
    try:
        # ---- prefix (if the workflow is already over at the chosen position, pause earlier)
        while True:
            drvp.start()
            rp.scn = dict(scn, controls=[], choices=ch[:pos])
            rp.run()
            if drvp.status() in ("running", "resuming") or pos == 0:
                break
            pos = pos // 2
            defn, drvp = common.build(scn, stats)
            fo = refsem.FlowObserver(scn["ir"])
            drvp.observers.append(fo)
            rp = sched.Run(drvp, dict(scn, controls=[]), {"finish": 0})
        if drvp.status() not in ("running", "resuming"):
            raise Reject()
        W = [list(a) for a in drvp.inflight]
        n_before_pause = len(rp.history)
        rec = rp.step({"op": "req", "status": scn.get("pause_status", "pausing")})
        if rec["rejected"]:
            raise Violation("pause-request-rejected-on-running-workflow", dict(info, status=rec["before"], reason=rec.get("reject_msg"), history=common.history_summary(rp)))
        if W and rec["after"] != "pausing":
            raise Violation("not-pausing-with-actions-in-flight", dict(info, status=rec["after"], inflight=W, history=common.history_summary(rp)))
        if not W and rec["after"] != "paused":
            raise Violation("not-paused-at-once-with-nothing-in-flight", dict(info, status=rec["after"], history=common.history_summary(rp)))
        # ---- drain window
        order = list(scn.get("drain") or [])
        k = 0
        while True:
            left = [a for a in drvp.inflight if list(a) in W]
            if not left:
                break
            if k < len(order) and order[k] % 3 == 0:
                r0 = rp.step({"op": "poll"})
                if r0["offers"] and r0["before"] in ("pausing", "paused"):
                    raise Violation("offer-while-pausing", dict(info, offers=[(o["id"], o["route"], o["items"]) for o in r0["offers"]], history=common.history_summary(rp)))
            a = left[(order[k] if k < len(order) else 0) % len(left)]
            k += 1
            s, res = rp.outcome(a)
            before = drvp.status()
            rec = rp.step({"op": "done", "a": list(a), "status": s, "result": res})
            still = [x for x in drvp.inflight if list(x) in W]
            if s != "succeeded":
                labels.add("failure-in-window")
            if before == "pausing":
                if still and rec["after"] not in ("pausing", "failed", "canceling", "canceled"):
                    raise Violation("left-pausing-before-last-report", dict(info, status=rec["after"], inflight=still, history=common.history_summary(rp)))
                if not still and rec["after"] == "pausing":
                    raise Violation("still-pausing-after-last-report", dict(info, history=common.history_summary(rp), events=sorted(fo.flow.events)))
        r0 = rp.step({"op": "poll"})
        if r0["offers"] and r0["before"] in ("pausing", "paused"):
            raise Violation("offer-while-paused", dict(info, offers=[(o["id"], o["route"], o["items"]) for o in r0["offers"]], status=drvp.status(), history=common.history_summary(rp)))
        status_at_rest = drvp.status()
        resumed = False
        resume_completed = False
        if status_at_rest in ("paused", "pausing"):
            rec = rp.step({"op": "req", "status": scn.get("resume_status", "resuming")})
            resumed = not rec["rejected"]
            if rec["rejected"]:
                raise Violation("resume-request-rejected", dict(info, status=rec["before"], reason=rec.get("reject_msg"), history=common.history_summary(rp)))
            resume_completed = rec["after"] in provider.TERMINAL
        n_after_resume = len(rp.history)
        r1 = rp.step({"op": "poll"})
        held = [(o["id"], o["route"], tuple(o["items"])) for o in r1["offers"]]
        disp_after_resume_poll = collections.Counter(map(tuple, drvp.dispatched))
        # ---- suffix
        rp.scn = dict(scn, controls=[], choices=ch[pos:])
        rp.flags["finish"] = 1
        rp.run()
    except provider.KnownTrigger as kt:
        stats.excluded[kt.fid] += 1
        return
    except provider.Anomaly as a:
        raise Violation("anomaly", dict(info, what=str(a)))
    except provider.EngineException as e:
        stats.engine_exception(e, scn)
        return
    except Violation as v:
        if fo.flow.late_arrivals:
            # the run is inside the region of known finding R1 (the harness may hold two actions for one
            # execution of the join): nothing after that point is this check's business
            stats.excluded["R1"] += 1
            return
        if isinstance(v.detail, dict):
            v.detail.setdefault("events", sorted(fo.flow.events))
        raise

    # ---- plain twin: same polls and completions, no requests
    drvh = provider.Driver(defn, scn.get("inputs") or {}, item_task_running=drvp.item_task_running, lifecycle=drvp.lifecycle, spec=None)
    disp_h_at = None
    try:
        drvh.start()
        for idx, op in enumerate(rp.history):
            if idx == n_after_resume + 1:
                disp_h_at = collections.Counter(map(tuple, drvh.dispatched))
            if op["op"] == "req":
                continue
            if op["op"] == "done" and list(op["a"]) not in drvh.inflight:
                # route numbers are handed out in the order transitions into split tasks are processed,
                # which the pause may change: follow the same task / item under its number in the twin
                same = [x for x in drvh.inflight if x[0] == op["a"][0] and x[2] == op["a"][2]]
                if len(same) == 1 and lang.is_split(scn["ir"], op["a"][0]) or (len(same) == 1 and op["a"][1] != 0):
                    op = dict(op, a=list(same[0]))
                    labels.add("route-renamed-in-twin")
            if op["op"] == "done" and list(op["a"]) not in drvh.inflight:
                if drvp.status() in ("failed", "canceled") and drvh.status() == drvp.status():
                    # after a failure inside the window the twins legitimately diverge in what is
                    # still worth reporting (fail-fast); status and cause are compared below
                    break
                raise Violation("twin-cannot-follow", dict(info, op=op, history=common.history_summary(rp), events=sorted(fo.flow.events)))
            drvh.apply(op)
        if disp_h_at is None:
            disp_h_at = collections.Counter(map(tuple, drvh.dispatched))
        errs_h_replayed = sorted((e.get("message", ""), e.get("task_id")) for e in drvh.c.errors)
        # let the plain twin come to rest too
        n = 0
        while n < 50:
            n += 1
            rr = drvh.apply({"op": "poll"})
            if not drvh.inflight and not rr["offers"]:
                break
            if drvh.inflight:
                if drvp.status() == "succeeded":
                    raise Violation("twin-has-extra-work-in-flight", dict(info, inflight=drvh.inflight, history=common.history_summary(rp), events=sorted(fo.flow.events)))
                # fail-fast: the eager twin had legitimately dispatched more before the failure
                a = drvh.inflight[0]
                s_, r_ = rp.outcome(a)
                drvh.apply({"op": "done", "a": list(a), "status": s_, "result": r_})
    except provider.EngineException as e:
        stats.engine_exception(e, scn)
        return
    except (provider.KnownTrigger, provider.Anomaly):
        return
    except Violation:
        if fo.flow.late_arrivals:
            stats.excluded["R1"] += 1
            return
        raise

    if fo.flow.late_arrivals:
        stats.excluded["R1"] += 1
        return
    ev = sorted(fo.flow.events)
    hist = common.history_summary(rp)
    info["completed_on_resume"] = resume_completed
    if resumed and drvp.status() not in ("failed", "canceled") and status_at_rest == "paused":
        instant = any(k[2] == "empty" for k in list(disp_after_resume_poll) + list(disp_h_at))
        # (an empty with-items task completes inside the poll that offers it and may make further
        # work due at once, so the eager twin can be one poll ahead: those cases are not compared)
        # (compared without route numbers: they are handed out in processing order, which the pause changes)
        noroute = lambda c_: collections.Counter((t_, i_) for (t_, r_, i_) in c_.elements())  # noqa
        if not instant and noroute(disp_after_resume_poll) != noroute(disp_h_at):
            raise Violation("resume-did-not-continue-with-held-back-work", dict(info, paused_twin=sorted(disp_after_resume_poll.elements()), plain_twin=sorted(disp_h_at.elements()), history=hist, events=ev))
    sp, sh = drvp.status(), drvh.status()
    if sp != sh:
        raise Violation("final-status-differs", dict(info, paused_twin=sp, plain_twin=sh, errors_paused=[e.get("message") for e in drvp.c.errors], errors_plain=[e.get("message") for e in drvh.c.errors], history=hist, events=ev))
    errs = lambda d: sorted((e.get("message", ""), e.get("task_id")) for e in d.c.errors)  # noqa
    # (error entries of the plain twin are taken before its surplus in-flight actions are drained)
    ep_, eh_ = errs(drvp), errs_h_replayed
    if sp == "failed" and fo.flow.must_fail:
        # which joins are reported unreachable next to the real cause depends on what happened to be
        # staged or active at the moment of the failure (timing-dependent diagnostics, not the cause)
        ep_ = [e for e in ep_ if "UnreachableJoinError" not in e[0]]
        eh_ = [e for e in eh_ if "UnreachableJoinError" not in e[0]]
    # (when the final status is failed the two twins legitimately differ in what else ran - and logged -
    # before the failure stopped the workflow, in either direction: a task held back by the pause may never
    # run in one twin and fail in the other; only the status is compared there)
    if sp == "succeeded" and ep_ != eh_:
        raise Violation("errors-differ", dict(info, status=sp, paused_twin=ep_, plain_twin=eh_, history=hist, events=ev))
    if sp == "failed" and ep_ == eh_ and collections.Counter(drvp.dispatched) == collections.Counter(drvh.dispatched) and not drvh.inflight and not drvp.inflight:
        # both twins failed for the same reasons after running exactly the same actions: the output, rendered
        # from what was published, must agree as well
        try:
            drvp.apply({"op": "output"})
            drvh.apply({"op": "output"})
        except provider.EngineException as e:
            stats.engine_exception(e, scn)
            return
        op_, oh = drvp.c.get_workflow_output() or {}, drvh.c.get_workflow_output() or {}
        pubs = collections.Counter()
        for c in drvh.c.serialize()["state"]["contexts"][1:]:
            for kx in c:
                pubs[kx] += 1
        for name in set(op_) | set(oh):
            var = name[:-4] if name.endswith("_out") else name
            if pubs[var] <= 1 and common.jd(op_.get(name)) != common.jd(oh.get(name)):
                raise Violation("output-of-failed-twins-differs", dict(info, variable=var, paused_twin=op_.get(name), plain_twin=oh.get(name), history=hist, events=ev))
        stats.label("failed-twins-output-compared")
    if sp == "succeeded":
        ep = collections.Counter(t for t, r, i in drvp.dispatched)
        eh = collections.Counter(t for t, r, i in drvh.dispatched)
        if ep != eh:
            raise Violation("executed-tasks-differ", dict(info, paused_twin=sorted(ep.items()), plain_twin=sorted(eh.items()), history=hist, events=ev))
        drvp.apply({"op": "output"})
        drvh.apply({"op": "output"})
        if drvp.status() != drvh.status():
            raise Violation("status-after-output-differs", dict(info, paused_twin=drvp.status(), plain_twin=drvh.status(), errors_paused=[e.get("message") for e in drvp.c.errors], history=hist, events=ev))
        op_, oh = drvp.c.get_workflow_output() or {}, drvh.c.get_workflow_output() or {}
        pubs = collections.Counter()
        for c in drvh.c.serialize()["state"]["contexts"][1:]:
            for kx in c:
                pubs[kx] += 1
        for name in set(op_) | set(oh):
            var = name[:-4] if name.endswith("_out") else name
            if pubs[var] <= 1 and common.jd(op_.get(name)) != common.jd(oh.get(name)):
                raise Violation("output-differs", dict(info, variable=var, paused_twin=op_.get(name), plain_twin=oh.get(name), publish_events=pubs[var], history=hist, events=ev))
    stats.label("status:" + sp)
    if W:
        labels.add("pause-with-actions-in-flight")
    if held:
        labels.add("work-held-back")
    if any("items" in str(h) and h[2] and h[2] != (None,) for h in held):
        labels.add("items-held-back")
    for lab in labels:
        stats.label(lab)
    if W and held:
        stats.mark_nontrivial(scn)
        stats.sample({"definition": defn, "outcomes": scn.get("outcomes"), "history": hist[:50], "held_back": held})


CFG = gen.cfg(items=0.15, retry=0.15, retry_cmd=True, p_loop=0.2, items_conc=False)


def strategy(tier):
    base = gen.scenario(CFG, flags={}, max_choices=50)
    return st.builds(
        lambda s, p, d, ps, rs: dict(s, pause_at=min(p, len(s["choices"])), drain=d, pause_status=ps, resume_status=rs),
        base,
        st.sampled_from([0, 1, 1, 2, 2, 3, 3, 4, 5, 6, 8, 10, 14]),
        st.lists(st.integers(0, 11), max_size=12),
        st.sampled_from(["pausing", "pausing", "paused"]),
        st.sampled_from(["resuming", "resuming", "running"]),
    )


PARTS = [Part("twin", run, strategy, {"quick": 2000, "thorough": 20000}, rule=RULE)]
