"""C20 - every documented shorthand means exactly its long form.

Part `parser`: for values from the documented inline grammar - integers, decimals with digits on both
sides of the point, true / false / null, double- or single-quoted strings (arbitrary content that does
not contain their own quote character, so `=`, ` in `, commas, semicolons, spaces, the other quote,
look-alikes such as "5" or "true" are all in), quoted JSON objects, YAQL and Jinja expressions -
parse_inline_params(render(name=value ...)) gives back exactly the names and values, type-exactly,
in order, for every separator (space, comma, semicolon) and any number of parameters per line.

Part `twins`: two definitions are rendered from one generated description: the long form, and a form
using a generated combination of shorthands (inline action parameters, inline publish, comma-separated
`do`, string `with`, omitted `do`).  The twins must compose to the same graph, get the same inspection
report, and conduct identically in lock-step under one generated history: same offered tasks with the
same rendered actions and inputs, same published context deltas, same status, same errors, same output.
"""
import copy
import json

from hypothesis import strategies as st

from orquesta.composers import native as composer
from orquesta.specs import native as native_specs
from orquesta.utils import parameters

from vf import provider, sched
from vf.props import common
from vf.props.c16 import same
from vf.runner import Part, Reject, Violation

RULE = (
    "parser: 1..5 parameters per line with generated values of every documented class and separators; twins: generated "
    "small workflows (inputs, publishes, forks, with-items) rendered long and with a generated choice of shorthands per "
    "site; non-trivial = a value containing a delimiter-like character, a quote of the other kind or a look-alike "
    "(quoted number/boolean/null), or >= 2 parameters on one line; distinct by hash"
)
ASSUMPTIONS = [
    "the value grammar is the documented one, not 'whatever the regular expression accepts': exponent floats, .5, bare words, inline lists and strings containing expression delimiters are outside the domain",
    "a string that is itself a valid JSON object text cannot be written inline as a string (the documented meaning of a quoted JSON object is the object), so such strings are not generated as string values",
]

DELIMS = ("<%", "%>", "{{", "}}", "{%", "%}", "{#", "#}")
SPICY = ["a=b", "k=1 j=2", "x in y", "a, b", "a;b", " lead", "trail ", "", "5", "-3", "1.5", "true", "False", "null", "None", "[1, 2]", "{x}", "it's", 'say "hi"', "end'", '"', "'", "=", "a  b", "é", "ctx(x)", "<", "%", "\\", "a\\nb", "k='v'"]


def ok_text(s):
    if any(d in s for d in DELIMS):
        return False
    t = s.strip()
    if t.startswith("{") and t.endswith("}"):
        try:
            json.loads(t)
            return False
        except Exception:
            pass
    return True


def strings():
    return st.one_of(st.sampled_from(SPICY), st.text(st.characters(blacklist_categories=("Cs", "Cc")), max_size=10)).filter(ok_text)


def values():
    jobj = st.dictionaries(st.sampled_from(["a", "b", "k k", "Host", "KEY"]), st.one_of(st.integers(-5, 5), st.sampled_from(["x", "y z", "q=1", "DB01", "True", "Null"]), st.booleans(), st.none()), min_size=1, max_size=3)
    return st.one_of(
        st.integers(-10**6, 10**6).map(lambda v: {"t": "int", "v": v}),
        st.tuples(st.integers(-999, 999), st.integers(0, 999)).map(lambda p: {"t": "dec", "v": float("%d.%03d" % p) if p[0] >= 0 else float("-%d.%03d" % (-p[0], p[1])), "txt": ("%d.%03d" % p) if p[0] >= 0 else ("-%d.%03d" % (-p[0], p[1]))}),
        st.booleans().map(lambda v: {"t": "bool", "v": v}),
        st.just({"t": "null", "v": None}),
        strings().map(lambda v: {"t": "str", "v": v}),
        jobj.map(lambda v: {"t": "json", "v": v}),
        st.sampled_from(["<% ctx(base) %>", "<% ctx().base %>", "{{ ctx('base') }}", "<% ctx(base) + 1 %>", "{{ ctx('base') + 1 }}", "<% 'a b' %>"]).map(lambda v: {"t": "expr", "v": v}),
    )


def inline(val, quote):
    """Text of a value in inline notation.  quote: preferred quote character for strings."""
    t, v = val["t"], val["v"]
    if t == "int":
        return str(v)
    if t == "dec":
        return val["txt"]
    if t == "bool":
        return "true" if v else "false"
    if t == "null":
        return "null"
    if t == "expr":
        return v
    if t == "json":
        return "'" + json.dumps(v) + "'"
    q = quote
    if q in v:
        q = "'" if q == '"' else '"'
    if q in v:
        return None  # contains both quote characters: not expressible inline
    return q + v + q


def long_value(val):
    if val["t"] == "dec":
        return val["v"]
    return copy.deepcopy(val["v"])


def run_parser(scn, stats):
    parts = []
    want = []
    for (name, val, q) in scn["params"]:
        txt = inline(val, q)
        if txt is None:
            continue
        parts.append("%s=%s" % (name, txt))
        want.append({name: long_value(val)})
    if not parts:
        raise Reject()
    line = scn["sep"].join(parts)
    if scn["prefix"]:
        line = "core.act " + line
    try:
        got = parameters.parse_inline_params(line)
    except Exception as e:  # noqa
        raise Violation("inline-parser-raised", {"line": line, "error": repr(e)})
    if not same(got, want):
        raise Violation("inline-parameters-differ-from-long-form", {"line": line, "parsed": repr(got), "expected": repr(want)})
    hot = any(v["t"] == "str" and (v["v"] in SPICY or any(c in v["v"] for c in "=,;'\" ")) for _, v, _ in scn["params"])
    stats.label("params:%d" % min(len(parts), 4))
    if hot or len(parts) >= 2:
        stats.mark_nontrivial(scn)
        stats.sample({"line": line, "parsed": repr(got)[:200]})


def strat_parser(tier):
    names = st.sampled_from(["a", "b", "cmd", "x1", "long_name", "k"])
    return st.fixed_dictionaries({
        "params": st.lists(st.tuples(names, values(), st.sampled_from(['"', "'"])), min_size=1, max_size=5, unique_by=lambda p: p[0]),
        "sep": st.sampled_from([" ", ", ", ",", "; ", ";", "  "]),
        "prefix": st.booleans(),
    })


# ----------------------------------------------------------------------------- twin definitions


@st.composite
def wf(draw):
    n = draw(st.integers(2, 5))
    names = ["t%d" % i for i in range(n)]
    tasks = []
    for i, nm in enumerate(names):
        later = names[i + 1 :]
        t = {"name": nm, "inputs": draw(st.lists(st.tuples(st.sampled_from(["a", "b", "c", "d"]), values(), st.sampled_from(['"', "'"])), max_size=3, unique_by=lambda p: p[0])), "trs": []}
        if draw(st.integers(0, 4)) == 0:
            t["items"] = draw(st.sampled_from([None, ["i"]]))
        for k in range(draw(st.sampled_from([0, 1, 1, 2]))):
            tr = {
                "when": draw(st.sampled_from([None, "<% succeeded() %>", "{{ succeeded() }}", "<% failed() %>"])),
                "publish": draw(st.lists(st.tuples(st.sampled_from(["p", "q", "r"]), values(), st.sampled_from(['"', "'"])), max_size=3, unique_by=lambda p: p[0])),
                "do": draw(st.lists(st.sampled_from(later), max_size=3, unique=True)) if later else [],
            }
            if draw(st.integers(0, 5)) == 0:
                tr["do"] = tr["do"] + [draw(st.sampled_from(["noop", "fail"]))]
            t["trs"].append(tr)
        tasks.append(t)
    return {"tasks": tasks, "short": draw(st.lists(st.booleans(), min_size=40, max_size=40)), "sep": draw(st.sampled_from([" ", ", ", "; "])), "dosep": draw(st.sampled_from([", ", ",", " , "]))}


def render(w, short):
    """Render the description long (short=False) or with the generated choice of shorthands."""
    bits = iter(w["short"])
    pick = lambda: short and next(bits)  # noqa
    d = {"vars": [{"base": 1}, {"xs": [1, 2]}], "tasks": {}}
    for t in w["tasks"]:
        td = {}
        ins = [(n, v, q) for n, v, q in t["inputs"] if inline(v, q) is not None]
        if "items" in t:
            items = ("i in <% ctx(xs) %>") if t["items"] else "<% ctx(xs) %>"
            td["with"] = items if pick() else {"items": items}
        if ins and pick():
            td["action"] = "core.act " + w["sep"].join("%s=%s" % (n, inline(v, q)) for n, v, q in ins)
        else:
            td["action"] = "core.act"
            if ins:
                td["input"] = {n: long_value(v) for n, v, q in ins}
        nxt = []
        for tr in t["trs"]:
            trd = {}
            if tr["when"]:
                trd["when"] = tr["when"]
            pubs = [(n, v, q) for n, v, q in tr["publish"] if inline(v, q) is not None]
            if pubs:
                if pick():
                    trd["publish"] = w["sep"].join("%s=%s" % (n, inline(v, q)) for n, v, q in pubs)
                else:
                    trd["publish"] = [{n: long_value(v)} for n, v, q in pubs]
            do = list(tr["do"])
            if not do:
                if not (pick() and trd):  # omitted `do` means continue (an empty mapping is no transition)
                    trd["do"] = ["continue"]
            elif pick():
                trd["do"] = w["dosep"].join(do)
            else:
                trd["do"] = do
            nxt.append(trd)
        if nxt:
            td["next"] = nxt
        d["tasks"][t["name"]] = td
    d["output"] = [{"p": "<% ctx().get(p) %>"}, {"q": "<% ctx().get(q) %>"}, {"r": "<% ctx().get(r) %>"}]
    return d


def run_twins(scn, stats):
    long_d, short_d = render(scn["wf"], False), render(scn["wf"], True)
    info = {"long": long_d, "short": short_d}
    specs = []
    for name, d in (("long", long_d), ("short", short_d)):
        try:
            specs.append(native_specs.WorkflowSpec(copy.deepcopy(d)))
        except Exception as e:  # noqa
            if name == "short":
                raise Violation("shorthand-definition-raised", dict(info, error=repr(e)))
            raise Reject()
    ia, ib = specs[0].inspect(), specs[1].inspect()
    strip = lambda r: sorted((k, e.get("message"), e.get("expression")) for k, v in r.items() for e in v)  # noqa
    if strip(ia) != strip(ib):
        raise Violation("inspection-differs", dict(info, long_report=ia, short_report=ib))
    if ia:
        raise Reject()
    ga, gb = composer.WorkflowComposer.compose(specs[0]).serialize(), composer.WorkflowComposer.compose(specs[1]).serialize()
    if common.jd(ga) != common.jd(gb):
        raise Violation("composed-graph-differs", dict(info, long_graph=ga, short_graph=gb))
    a = provider.Driver(long_d, {}, spec=specs[0])
    b = provider.Driver(short_d, {}, spec=specs[1])

    def follow(drv, rec):
        op = rec["op"]
        try:
            recb = b.start() if op["op"] == "start" else b.apply(op)
        except provider.EngineException as e:
            raise Violation("shorthand-twin-raised", dict(info, error=str(e), op=op))
        va = [(o["id"], o["route"], o["items"], common.jd(o["actions"])) for o in rec["offers"]]
        vb = [(o["id"], o["route"], o["items"], common.jd(o["actions"])) for o in recb["offers"]]
        if va != vb:
            raise Violation("offered-actions-differ", dict(info, long_offers=va, short_offers=vb, op=op))
        if rec["after"] != recb["after"]:
            raise Violation("status-differs", dict(info, long_status=rec["after"], short_status=recb["after"], op=op))
        sa, sb = a.c.serialize(), b.c.serialize()
        if not same(sa["state"]["contexts"], sb["state"]["contexts"]):
            raise Violation("published-values-differ", dict(info, long_contexts=repr(sa["state"]["contexts"])[:600], short_contexts=repr(sb["state"]["contexts"])[:600], op=op))
        if [e.get("message") for e in sa["errors"]] != [e.get("message") for e in sb["errors"]]:
            raise Violation("errors-differ", dict(info, long_errors=sa["errors"], short_errors=sb["errors"]))

    a.observers.append(follow)
    r = sched.Run(a, {"choices": scn["choices"], "outcomes": scn["outcomes"], "flags": {}})
    try:
        r.run()
        if a.status() in provider.TERMINAL:
            r.step({"op": "output"})
            if not same(a.c.get_workflow_output(), b.c.get_workflow_output()):
                raise Violation("output-differs", dict(info, long_output=a.c.get_workflow_output(), short_output=b.c.get_workflow_output()))
    except provider.EngineException as e:
        stats.engine_exception(e, scn)
    except (provider.KnownTrigger, provider.Anomaly):
        pass
    used = json.dumps(short_d) != json.dumps(long_d)
    stats.label("status:" + a.status(), "shorthand-used" if used else "identical")
    if used:
        stats.mark_nontrivial(scn)
        stats.sample({"short": short_d["tasks"], "status": a.status()})


def strat_twins(tier):
    return st.fixed_dictionaries({
        "wf": wf(),
        "choices": st.lists(st.integers(0, 255), max_size=30),
        "outcomes": st.dictionaries(st.sampled_from(["t0", "t1", "t2", "t3"]), st.just([["failed", 500]]), max_size=1),
    })


PARTS = [
    Part("parser", run_parser, strat_parser, {"quick": 6000, "thorough": 150000}, rule="inline parameter round trip"),
    Part("twins", run_twins, strat_twins, {"quick": 1500, "thorough": 40000}, rule=RULE),
]
