"""C04 - terminal statuses are final; nothing is scheduled after them; rejected requests have no effect.

Part `suffix`: histories run *past* the first terminal status with generated suffixes - late
completion reports of still-running actions, polls, status requests of every kind, output rendering.
  * after succeeded / canceled no poll ever offers a task;
  * after failed only the documented clean-up tasks (tasks named in the satisfied transitions of a
    completion that also ran the fail command) are offered;
  * late completions raise nothing and leave the status unchanged;
  * the status changes after terminal only succeeded -> failed during render_workflow_output;
  * any status request that is rejected (raises InvalidWorkflowStatusTransition) leaves
    conductor.serialize() identical to what it was before the call - in every state of the history.

Part `table`: at generated points of a history the conductor is copied (serialize/deserialize) and
EVERY status (all 16) is requested on a fresh copy each - the full reachable-status x requested-status
table; rejection => copy's serialize() unchanged; request on a terminal workflow => rejected or no-op.
"""
import json

from hypothesis import strategies as st

from orquesta import conducting, exceptions as exc, statuses

from vf import gen, provider, refsem, sched
from vf.props import common
from vf.runner import Part, Violation

RULE = (
    "random definitions (all features) x outcome tables x schedules, continued past the first terminal status with a "
    "generated suffix of late completions, polls and status requests; plus the exhaustive 16-status request table "
    "probed on copies at generated points; non-trivial = a suffix with >=1 late completion and >=1 rejected request, "
    "or >=1 clean-up task offered after failed; distinct by hash of definition+outcomes+schedule"
)
ASSUMPTIONS = [
    "only the direction 'rejected => no effect' and terminal finality are asserted; which non-terminal requests must be rejected is not",
    "clean-up tasks = task targets of the satisfied transitions of the completion that ran `fail` (documented sibling semantics)",
]

TERMINAL = ("succeeded", "failed", "canceled")


class Finality(object):
    def __init__(self, flow):
        self.flow = flow
        self.first_terminal = None
        self.late = 0
        self.rejected_after = 0
        self.rejected = 0
        self.cleanup_offers = 0
        self.cancel_seen = False
        self.snap = None

    def pre(self, drv):
        self.snap = common.jd(drv.c.serialize())

    def __call__(self, drv, rec):
        op = rec["op"]
        before, after = rec["before"], rec["after"]
        if op["op"] == "start":
            return
        if op["op"] == "req" and not rec["rejected"] and op["status"] in ("canceling", "canceled"):
            # a with-items task that the cancellation stopped half-way completes as canceled and its
            # transitions still fire; the reference model does not follow tasks canceled by the workflow,
            # so the clean-up restriction is asserted on histories without an accepted cancel request
            self.cancel_seen = True
        hist = lambda: common.history_summary(_R(drv))[-30:]  # noqa
        if rec["rejected"]:
            self.rejected += 1
            now = common.jd(drv.c.serialize())
            if self.snap is not None and now != self.snap:
                raise Violation("rejected-request-changed-state", {"op": op, "status": before, "definition": drv.defn, "history": hist(), "diff": _diff(json.loads(self.snap), json.loads(now))})
        if before in TERMINAL:
            if rec["rejected"]:
                self.rejected_after += 1
            if op["op"] == "done":
                self.late += 1
            if after != before:
                # succeeded -> failed is the one documented post-terminal move; the engine performs it
                # through request_workflow_status(FAILED), so an explicit FAILED request is the same
                # lifecycle edge and is not asserted against
                ok = before == "succeeded" and after == "failed" and (op["op"] == "output" or (op["op"] == "req" and op["status"] == "failed"))
                ok = ok or (op["op"] == "rerun" and not rec["rejected"])
                if not ok:
                    raise Violation("terminal-status-changed", {"op": op, "from": before, "to": after, "definition": drv.defn, "history": hist()})
            if op["op"] == "req" and not rec["rejected"] and op["status"] != before and not (before == "succeeded" and op["status"] == "failed"):
                raise Violation("request-accepted-on-terminal-workflow", {"op": op, "status": before, "definition": drv.defn, "history": hist()})
            if rec["offers"] and not drv.reruns:
                if before in ("succeeded", "canceled"):
                    raise Violation("offer-after-" + before, {"offers": [(o["id"], o["route"]) for o in rec["offers"]], "definition": drv.defn, "history": hist()})
                for o in rec["offers"]:
                    if self.cancel_seen:
                        break
                    if o["id"] not in self.flow.cleanup_ok:
                        raise Violation("non-cleanup-offer-after-failed", {"offer": [o["id"], o["route"]], "cleanup_allowed": sorted(self.flow.cleanup_ok), "definition": drv.defn, "history": hist()})
                    self.cleanup_offers += 1


def _diff(a, b, path=""):
    out = []
    if isinstance(a, dict) and isinstance(b, dict):
        for k in sorted(set(a) | set(b)):
            if a.get(k) != b.get(k):
                out.extend(_diff(a.get(k), b.get(k), path + "." + str(k)))
    elif isinstance(a, list) and isinstance(b, list) and len(a) == len(b):
        for i, (x, y) in enumerate(zip(a, b)):
            if x != y:
                out.extend(_diff(x, y, path + "[%d]" % i))
    else:
        out.append({"path": path, "before": a, "after": b})
    return out[:5]


class _R(object):
    def __init__(self, d):
        self.d = d


class PreDriver(provider.Driver):
    """Driver that lets the observer snapshot the persisted state before every call."""

    fin = None

    def apply(self, op):
        if self.fin is not None:
            self.fin.pre(self)
        return super().apply(op)


def run_suffix(scn, stats):
    defn, drv0 = common.build(scn, stats)
    drv = PreDriver(defn, scn.get("inputs") or {}, item_task_running=drv0.item_task_running, lifecycle=drv0.lifecycle, spec=drv0.spec)
    fo = refsem.FlowObserver(scn["ir"])
    fin = Finality(fo.flow)
    drv.fin = fin
    drv.observers += [fo, fin]
    r = sched.Run(drv, scn, {"finish": 0, "badreq": 1})
    r.at_rest = lambda: False  # do not stop at the terminal status: the suffix is the point
    try:
        r.run(stop=lambda rr: bool(fo.flow.late_arrivals))
        # deterministic tail: complete everything still in flight (late completions), poll, request
        r.finish(stop=lambda rr: bool(fo.flow.late_arrivals))
        if drv.status() in TERMINAL and not fo.flow.late_arrivals:
            for s in scn.get("tail_requests") or []:
                r.step({"op": "req", "status": s})
            r.step({"op": "output"})
            r.step({"op": "poll"})
    except provider.KnownTrigger as k:
        stats.excluded[k.fid] += 1
    except provider.Anomaly as a:
        raise Violation("anomaly", {"what": str(a), "definition": defn})
    except provider.EngineException as e:
        if e.driver.steps and e.driver.steps[-1]["after"] in TERMINAL or drv.status() in TERMINAL:
            raise Violation("late-event-raised-after-terminal", {"error": str(e), "definition": defn, "history": common.history_summary(r)[-30:]})
        stats.engine_exception(e, scn)
    if fo.flow.late_arrivals:
        stats.excluded["R1"] += 1
    stats.label("status:" + drv.status())
    if fin.late:
        stats.label("late-completion")
    if fin.rejected_after:
        stats.label("rejected-after-terminal")
    if fin.cleanup_offers:
        stats.label("cleanup-offered-after-failed")
    if (fin.late and fin.rejected_after) or fin.cleanup_offers:
        stats.mark_nontrivial(scn)
        stats.sample({"definition": defn, "outcomes": scn["outcomes"], "history": common.history_summary(r, 50)})


ALL_STATUSES = list(statuses.ALL_STATUSES)


def run_table(scn, stats):
    """Probe the whole request table on copies of the conductor at generated points."""
    defn, drv = common.build(scn, stats)
    points = set(scn.get("probe_points") or [])
    seen = set()
    n = [0]

    def probe(d, rec):
        n[0] += 1
        if n[0] not in points and rec["after"] not in TERMINAL:
            return
        cur = rec["after"]
        if (cur, "done") in seen and n[0] not in points:
            return
        seen.add((cur, "done"))
        base = json.loads(json.dumps(d.c.serialize()))
        for req in ALL_STATUSES:
            c2 = conducting.WorkflowConductor.deserialize(json.loads(json.dumps(base)))
            b = common.jd(c2.serialize())
            try:
                c2.request_workflow_status(req)
                rejected = False
            except provider.REJECTION:
                rejected = True
            except Exception as e:  # noqa
                raise Violation("status-request-raised-internal-error", {"status": cur, "request": req, "error": repr(e), "definition": d.defn})
            a = common.jd(c2.serialize())
            stats.extra["cell:%s<-%s:%s" % (cur, req, "rejected" if rejected else "accepted")] += 1
            if rejected and a != b:
                raise Violation("rejected-request-changed-state", {"status": cur, "request": req, "definition": d.defn, "history": common.history_summary(_R(d))[-30:], "diff": _diff(json.loads(b), json.loads(a))})
            if cur in TERMINAL and not rejected and a != b and not (cur == "succeeded" and req == "failed"):
                raise Violation("request-changed-terminal-workflow", {"status": cur, "request": req, "definition": d.defn, "diff": _diff(json.loads(b), json.loads(a))})

    drv.observers.append(probe)
    r = sched.Run(drv, scn)
    try:
        r.run()
    except provider.KnownTrigger as k:
        stats.excluded[k.fid] += 1
    except provider.EngineException as e:
        stats.engine_exception(e, scn)
    for s, _ in seen:
        stats.label("probed:" + s)
    if len(seen) >= 2:
        stats.mark_nontrivial(scn)


CFG = gen.cfg(items=0.15, retry=0.15, retry_cmd=True, p_loop=0.2)
CONTROLS = {"pause": 1, "resume": 1, "cancel": 1}


def strat_suffix(tier):
    base = gen.scenario(CFG, flags={"pending": 1}, max_choices=60, controls=CONTROLS)
    return st.builds(
        lambda s, tail: dict(s, tail_requests=tail),
        base,
        st.lists(st.sampled_from(ALL_STATUSES), min_size=1, max_size=5),
    )


def strat_table(tier):
    base = gen.scenario(CFG, flags={"pending": 1}, max_choices=40, controls={"pause": 1, "cancel": 1})
    return st.builds(lambda s, pts: dict(s, probe_points=sorted(pts)), base, st.sets(st.integers(1, 30), max_size=4))


PARTS = [
    Part("suffix", run_suffix, strat_suffix, {"quick": 1800, "thorough": 18000}, rule=RULE),
    Part("table", run_table, strat_table, {"quick": 500, "thorough": 5000}, rule="every one of the 16 statuses requested on a copy of the conductor at generated points and at each terminal status; cells recorded in extra"),
]
