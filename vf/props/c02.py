"""C02 - the reported workflow status is truthful about the tasks.

Invariant after every API call, from the harness's own ledger and the reference model:
  succeeded         => nothing in flight or dormant, a probe get_next_tasks() is empty, the model holds no
                       due work and no open execution, every abended execution was handled by a matching
                       transition, no fail command ran, no runtime error happened;
  paused / canceled => nothing in flight;
  pausing/canceling => at least one action in flight;
  temporal          => after the call that processes an unhandled failure, a fail command or a runtime
                       error the status is failed unless canceling/canceled, and it never becomes
                       succeeded afterwards (checked to the end of the history, through pause/resume).
"""
from vf import gen, refsem
from vf.props import common
from vf.runner import Part, Violation

RULE = (
    "random definitions (handlers, noop/fail/continue, joins, loops, with-items, retry policy and command) x outcome "
    "tables x choice-list schedules with pause/resume/cancel requests and pending reports anywhere; non-trivial = a "
    "control request accepted while >=1 action is in flight AND a failure (handled or not) or fail command in the same "
    "history; distinct by hash of definition+outcomes+schedule"
)
ASSUMPTIONS = [
    "'handled' = some satisfied transition of the failed execution has a target other than continue (language docs: continue cascades the failure, noop remediates)",
    "in flight = dispatched by the harness and last reported in an active status (harness ledger, never read from the conductor)",
    "runs are abandoned (counted) at the trigger of known finding R1 (late arrival at a fired join N) owned by C07",
]


class Inv(object):
    def __init__(self, flow):
        self.flow = flow
        self.must_fail_seen = False
        self.ctl_inflight = False
        self.cancel_req = False
        self.n_checked = 0

    def __call__(self, drv, rec):
        s = rec["after"]
        op = rec["op"]
        flow = self.flow
        self.n_checked += 1
        ctxt = lambda: {"op": op, "status": s, "definition": drv.defn, "history": common.history_summary(_R(drv))[-25:]}  # noqa
        if op["op"] == "req" and not rec["rejected"]:
            if drv.inflight:
                self.ctl_inflight = True
            if op["status"] in ("canceling", "canceled"):
                self.cancel_req = True
        if flow.canceled_action:
            self.cancel_req = True
        if flow.late_arrivals:
            return
        if s in ("paused", "canceled", "succeeded") and drv.inflight:
            raise Violation("in-flight-while-" + s, dict(ctxt(), inflight=drv.inflight))
        if s in ("pausing", "canceling") and not drv.inflight:
            raise Violation("nothing-in-flight-while-" + s, ctxt())
        if s == "succeeded":
            if drv.dormant:
                raise Violation("dormant-action-while-succeeded", ctxt())
            probe = drv.next_tasks()
            if probe:
                raise Violation("succeeded-but-offers", dict(ctxt(), offers=[(t["id"], t["route"]) for t in probe]))
            if flow.has_due() or flow.open:
                raise Violation("succeeded-with-work-waiting", dict(ctxt(), due=flow.due_view(), open=[list(k) for k in flow.open]))
            if flow.unhandled:
                raise Violation("succeeded-with-unhandled-failure", dict(ctxt(), unhandled=flow.unhandled))
            if flow.fail_cmd:
                raise Violation("succeeded-after-fail-command", ctxt())
            if flow.runtime_error:
                raise Violation("succeeded-after-runtime-error", ctxt())
        if flow.must_fail:
            if not self.must_fail_seen:
                self.must_fail_seen = True
            if s != "failed" and not (self.cancel_req or s in ("canceling", "canceled")):
                raise Violation("not-failed-after-failure", dict(ctxt(), unhandled=flow.unhandled, fail_cmd=flow.fail_cmd))


class _R(object):
    def __init__(self, d):
        self.d = d


def run(scn, stats):
    fo = refsem.FlowObserver(scn["ir"])
    inv = Inv(fo.flow)

    def stop(r):
        # R1 (owned by C07) makes the engine offer a join that is already running: the harness would then
        # hold two actions for one execution record and its ledger stops being meaningful
        return bool(fo.flow.late_arrivals)

    defn, r = common.run(scn, stats, observers=[fo, inv], stop=stop, post_poll=True)
    if fo.flow.late_arrivals:
        stats.excluded["R1"] += 1
    stats.label("status:" + r.d.status())
    for e in fo.flow.events:
        stats.label(e)
    if inv.ctl_inflight:
        stats.label("control-request-with-action-in-flight")
    if inv.ctl_inflight and (fo.flow.events & {"unhandled-failure", "handled-failure", "fail-command"}):
        stats.mark_nontrivial(scn)
        stats.sample({"definition": defn, "outcomes": scn["outcomes"], "history": common.history_summary(r, 40)})


CFG = gen.cfg(items=0.12, retry=0.15, retry_cmd=True, p_loop=0.2)
FLAGS = {"pause": 1, "pending": 1}
CONTROLS = {"pause": 2, "pause2": 1, "resume": 1, "cancel": 1, "pause+resume": 1, "pause+resume+cancel": 1}


def strategy(tier):
    return gen.scenario(CFG, flags=FLAGS, max_choices=60, controls=CONTROLS, canceled=True)


def strat_directed(tier):
    # branches that fail into the join (remediated), fail unhandled, or never arrive, with control requests
    # landing while the last of them reports
    return gen.directed_scenario(gen.fork_join_ir(items=True, retry=True), flags={"pending": 1}, controls=CONTROLS, max_choices=60, p_fail=0.3)


def strat_items(tier):
    return gen.directed_scenario(gen.items_siblings_ir(), flags={"pending": 1}, controls=CONTROLS, max_choices=60, canceled=True)


PARTS = [
    Part("status-invariant", run, strategy, {"quick": 2000, "thorough": 20000}, rule=RULE),
    Part("fork-join", run, strat_directed, {"quick": 1200, "thorough": 12000}, rule="directed fork-join definitions with failing / remediated / missing branches and control requests"),
    Part("items-siblings", run, strat_items, {"quick": 1200, "thorough": 12000}, rule="directed: concurrency-limited with-items tasks beside plain tasks that report pending / canceled / failed, with control requests"),
]
