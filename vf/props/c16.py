"""C16 - values flow through unchanged; evaluation is pure; internals stay hidden.

Part `transport`: a generated JSON value V (and a second one, V2, used as an action result) is sent
through every stage of the data path of a fixed two-task pipeline whose references are rendered in
a generated language and reference form:
    workflow input -> context -> vars -> action input -> action result -> publish -> action input of
    the next task -> publish -> output,   with persist/restore (real JSON round trip) in between.
At every stage the observed value must equal V (or V2) *type-exactly* (bool != int, int != float,
sign of zero, no precision loss); the persisted context snapshots and the output must contain no
name starting with a double underscore.

Part `purity`: generated expressions - the documented reference forms plus calls of every mutating
method the two languages expose on the referenced value - are evaluated against a context that is
deep-compared before and after.  A raised evaluation error is a pass; a changed context is not.
The same expressions are planted as a task input and the persisted contexts compared around
get_next_tasks().

Part `hiding`: ctx('__state'), ctx("__current_task"), ctx().__state, ctx()['__state'] ... in both
languages must raise or yield nothing internal; ctx() never contains a `__` name.
"""
import copy
import json
import math

from hypothesis import strategies as st

from orquesta import exceptions as exc
from orquesta.expressions import base as expr_base

from vf import provider
from vf.props import common
from vf.runner import Part, Violation

RULE = (
    "transport: recursive JSON values (nested containers, unicode incl. astral, ints beyond 64 bit, float extremes, "
    "-0.0, look-alike strings) x 7 reference forms x 2 languages x restore points; non-trivial = value of depth >= 2 or "
    "a hazard scalar (big int, float edge, look-alike/format string); purity: 30+ mutating/non-mutating expression "
    "shapes x generated container values; hiding: every documented access form to every internal name"
)
ASSUMPTIONS = [
    "strings containing expression or comment delimiters (<% %> {{ }} {% %} {# #}) are outside the statement's precondition and not generated",
    "lone surrogate code points are not generated (not Unicode scalar values; no JSON store round-trips them)",
    "floats are compared bit-exactly: the path is pure transport, no arithmetic happens",
]

DELIMS = ("<%", "%>", "{{", "}}", "{%", "%}", "{#", "#}")
HAZARD_STR = ["line\n", "two\n\n", "\n", "dos\r\nline", "cr\r", " lead", "trail ", "123", "-5", "1.0", "1e5", "true", "True", "false", "null", "None", "~", "", " ", "%s", "%(x)s", "{0}", "{}", "{x}", "$x", "a: b", "- x", "'q'", '"dq"', "a\nb", "tab\t", "\\n", "ctx(x)", "result()", "<", "%", "{", "}", "é中\U0001f600", "x" * 70]
HAZARD_NUM = [0, -0.0, 0.0, 1, -1, 2**31, 2**53 + 1, 2**63 - 1, 2**63, 2**64, -(2**63) - 1, 2**70, -(2**100), 0.1, 1e16, 1.7976931348623157e308, 5e-324, 2.2250738585072014e-308, -1.5, 1e-7, 123456789.123456789]


def ok_str(s):
    return not any(d in s for d in DELIMS)


def _text():
    return st.one_of(st.sampled_from(HAZARD_STR), st.text(st.characters(blacklist_categories=("Cs",)), max_size=12).filter(ok_str))


def _key():
    return st.one_of(st.sampled_from(["k", "a.b", "__x", "1", "with space", "ü", ""]), st.text(st.characters(blacklist_categories=("Cs",)), min_size=1, max_size=6).filter(ok_str))


def scalars():
    return st.one_of(
        st.none(),
        st.booleans(),
        st.sampled_from(HAZARD_NUM),
        st.integers(-(2**80), 2**80),
        st.floats(allow_nan=False, allow_infinity=False),
        _text(),
    )


def values():
    return st.recursive(scalars(), lambda ch: st.one_of(st.lists(ch, max_size=4), st.dictionaries(_key(), ch, max_size=4)), max_leaves=12)


def same(a, b):
    if type(a) is not type(b):
        return False
    if isinstance(a, float):
        return a == b and math.copysign(1, a) == math.copysign(1, b)
    if isinstance(a, list):
        return len(a) == len(b) and all(same(x, y) for x, y in zip(a, b))
    if isinstance(a, dict):
        return set(a) == set(b) and all(same(a[k], b[k]) for k in a)
    return a == b


def same_dict(a, b):
    return isinstance(a, dict) and isinstance(b, dict) and set(a) == set(b) and all(same(a[k], b[k]) for k in a)


def depth(v):
    if isinstance(v, list):
        return 1 + max([depth(x) for x in v] or [0])
    if isinstance(v, dict):
        return 1 + max([depth(x) for x in v.values()] or [0])
    return 0


def hazard(v):
    if isinstance(v, bool) or v is None:
        return False
    if isinstance(v, int):
        return abs(v) >= 2**53
    if isinstance(v, float):
        return v == 0.0 or abs(v) > 1e300 or (v != 0 and abs(v) < 1e-300)
    if isinstance(v, str):
        return v in HAZARD_STR or any(ord(c) > 0xFFFF for c in v)
    if isinstance(v, list):
        return any(hazard(x) for x in v)
    if isinstance(v, dict):
        return any(hazard(x) for x in v.values())
    return False


def ref(var, lang_, form):
    if lang_ == "yaql":
        body = ["ctx(%s)", "ctx('%s')", 'ctx("%s")', "ctx().%s"][form % 4] % var
        return "<% " + body + " %>"
    body = ["ctx('%s')", 'ctx("%s")', "ctx().%s"][form % 3] % var
    return "{{ " + body + " }}"


def res(lang_, form):
    if lang_ == "yaql":
        return ["<% result().val %>", "<% result().get(val) %>", "<% result()[val] %>"][form % 3]
    return ["{{ result().val }}", "{{ result()['val'] }}", '{{ result().get("val") }}'][form % 3]


def res2(lang_, form):
    if lang_ == "yaql":
        return ["<% result().val3 %>", "<% result().get(val3) %>", "<% result()[val3] %>"][form % 3]
    return ["{{ result().val3 }}", "{{ result()['val3'] }}", '{{ result().get("val3") }}'][form % 3]


def pipeline(lang_, forms, raw=False):
    f = lambda i: forms[i % len(forms)]  # noqa
    whole = "<% result() %>" if lang_ == "yaql" else "{{ result() }}"
    rs = (lambda l_, f_: whole) if raw else res
    rs2 = (lambda l_, f_: whole) if raw else res2
    return _pipeline(lang_, f, rs, rs2)


def _pipeline(lang_, f, res, res2):
    return {
        "input": ["v"],
        "vars": [{"w": ref("v", lang_, f(0))}],
        "tasks": {
            "t1": {
                "action": "core.act",
                "input": {"a": ref("v", lang_, f(1)), "b": ref("w", lang_, f(2)), "k": "plain"},
                "next": [{"publish": [{"p": res(lang_, f(3))}, {"q": ref("v", lang_, f(4))}, {"w": res2(lang_, f(3))}], "do": ["t2"]}],
            },
            "t2": {
                "action": "core.act",
                "input": {"c": ref("p", lang_, f(5)), "d": ref("q", lang_, f(6)), "e": ref("w", lang_, f(7))},
                "next": [{"publish": [{"r": ref("p", lang_, f(7))}]}],
            },
        },
        "output": [{"o1": ref("p", lang_, f(8))}, {"o2": ref("v", lang_, f(9))}, {"o3": ref("r", lang_, f(10))}, {"o4": ref("w", lang_, f(11))}],
    }


def run_transport(scn, stats):
    V, V2 = scn["v"], scn["v2"]
    V3 = scn.get("v3", V2)
    if isinstance(V, dict) and V and isinstance(V3, dict):
        V3 = [V3]  # a mapping republished over a non-empty mapping is merged key by key (not a transport question)
    raw = bool(scn.get("raw"))
    if raw:
        # the action result *is* the value (not a mapping that holds it): falsy results (0, false, "", [], {})
        # must arrive as they are
        V3 = V2
        if isinstance(V, dict) and V and isinstance(V2, dict):
            raw = False  # (republished over a mapping it would be merged key by key, see above)
            V3 = scn.get("v3", V2)
            V3 = [V3] if isinstance(V3, dict) else V3
    defn = pipeline(scn["lang"], scn["forms"], raw)
    drv = provider.Driver(defn, {"v": copy.deepcopy(V)})
    if drv.spec.inspect():
        raise Violation("pipeline-rejected", {"inspect": drv.spec.inspect(), "definition": defn})
    restore = set(scn.get("restore") or [])
    info = {"definition": defn, "v": repr(V), "v2": repr(V2)}

    def expect(stage, got, want):
        if not same(got, want):
            raise Violation("value-changed", dict(info, stage=stage, got=repr(got), want=repr(want)))

    def noleak(stage):
        s = drv.c.serialize()
        for i, c in enumerate(s["state"]["contexts"]):
            bad = [k for k in c if k.startswith("__")]
            if bad:
                raise Violation("internal-name-in-published-context", dict(info, stage=stage, context=i, names=bad))
        if s["output"] and any(k.startswith("__") for k in s["output"]):
            raise Violation("internal-name-in-output", dict(info, stage=stage))

    step = [0]

    def maybe_restore():
        step[0] += 1
        if step[0] in restore:
            drv.apply({"op": "restore"})

    try:
        drv.start()
        if drv.status() != "running":
            raise Violation("pipeline-did-not-start", dict(info, status=drv.status(), errors=drv.c.errors))
        expect("input->context", drv.c.serialize()["state"]["contexts"][0].get("v"), V)
        expect("input->vars", drv.c.serialize()["state"]["contexts"][0].get("w"), V)
        maybe_restore()
        r = drv.apply({"op": "poll"})
        if [o["id"] for o in r["offers"]] != ["t1"]:
            raise Violation("pipeline-offer", dict(info, offers=[o["id"] for o in r["offers"]], errors=drv.c.errors))
        o = r["offers"][0]
        expect("context->action input (v)", o["actions"][0]["input"].get("a"), V)
        expect("vars->action input (w)", o["actions"][0]["input"].get("b"), V)
        expect("task context", o["ctx"].get("v"), V)
        maybe_restore()
        drv.apply({"op": "done", "a": ["t1", 0, None], "status": "succeeded", "result": copy.deepcopy(V2) if raw else {"val": copy.deepcopy(V2), "val3": copy.deepcopy(V3)}})
        noleak("after t1")
        ctxs = drv.c.serialize()["state"]["contexts"]
        expect("result->publish", ctxs[-1].get("p"), V2)
        expect("context->publish", ctxs[-1].get("q"), V)
        expect("result->republish of an existing variable", ctxs[-1].get("w"), V3)
        maybe_restore()
        r = drv.apply({"op": "poll"})
        if [o["id"] for o in r["offers"]] != ["t2"]:
            raise Violation("pipeline-offer", dict(info, offers=[o["id"] for o in r["offers"]], errors=drv.c.errors, status=drv.status()))
        o = r["offers"][0]
        expect("publish->action input (p)", o["actions"][0]["input"].get("c"), V2)
        expect("publish->action input (q)", o["actions"][0]["input"].get("d"), V)
        expect("republished variable->action input (w)", o["actions"][0]["input"].get("e"), V3)
        maybe_restore()
        drv.apply({"op": "done", "a": ["t2", 0, None], "status": "succeeded", "result": None})
        maybe_restore()
        if drv.status() != "succeeded":
            raise Violation("pipeline-not-succeeded", dict(info, status=drv.status(), errors=drv.c.errors))
        drv.apply({"op": "output"})
        maybe_restore()
        out = drv.c.get_workflow_output() or {}
        if drv.status() != "succeeded":
            raise Violation("output-rendering-failed", dict(info, status=drv.status(), errors=drv.c.errors))
        expect("publish->output (p)", out.get("o1"), V2)
        expect("input->output (v)", out.get("o2"), V)
        expect("republish->output (r)", out.get("o3"), V2)
        expect("republished->output (w)", out.get("o4"), V3)
        noleak("end")
        # the whole persisted form must itself survive persistence unchanged
        s1 = drv.c.serialize()
        drv.apply({"op": "restore"})
        s2 = drv.c.serialize()
        expect("persisted contexts", s2["state"]["contexts"], s1["state"]["contexts"])
        expect("persisted output", s2["output"], s1["output"])
    except provider.EngineException as e:
        raise Violation("engine-raised-on-value", dict(info, error=str(e)))
    d = max(depth(V), depth(V2))
    hz = hazard(V) or hazard(V2)
    stats.label("lang:" + scn["lang"], "depth:%d" % min(d, 3))
    if hz:
        stats.label("hazard-scalar")
    if restore:
        stats.label("with-restore")
    if raw:
        stats.label("result-is-the-value" + ("-falsy" if not V2 and V2 is not None else ""))
    if d >= 2 or hz or (raw and not V2):
        stats.mark_nontrivial(scn)
        stats.sample({"v": repr(V)[:200], "v2": repr(V2)[:200], "lang": scn["lang"], "forms": scn["forms"], "restore": sorted(restore)})


def twin_of(v):
    """A value that compares equal to v in Python but is a different JSON value (or v itself if none)."""
    if v is True:
        return 1
    if v is False:
        return 0
    if isinstance(v, int):
        return bool(v) if v in (0, 1) else float(v) if abs(v) < 2**53 else v
    if isinstance(v, float) and v == int(v) and abs(v) < 2**53:
        return int(v)
    if isinstance(v, list):
        return [twin_of(x) for x in v]
    if isinstance(v, dict):
        return {k: twin_of(x) for k, x in v.items()}
    return v


def strat_transport(tier):
    base = st.fixed_dictionaries({
        "v": st.one_of(values(), st.sampled_from([0, 1, True, False, 1.0, 0.0, [0, 1], [True], {"n": 1}, {}, {}, []])),
        "v2": values(),
        "v3mode": st.sampled_from(["twin", "twin", "fresh"]),
        "v3fresh": values(),
        "lang": st.sampled_from(["yaql", "jinja"]),
        "forms": st.lists(st.integers(0, 11), min_size=3, max_size=12),
        "restore": st.sets(st.integers(1, 7), max_size=3).map(sorted),
        "raw": st.sampled_from([0, 0, 1]),
        "falsy": st.sampled_from([None, None, 0, False, "", [], {}, 0.0]),
    })

    def fin(d):
        d = dict(d, v3=twin_of(d["v"]) if d["v3mode"] == "twin" else d["v3fresh"])
        if d["raw"] and d["falsy"] is not None:
            d["v2"] = d["falsy"]  # the whole action result is a falsy value
        return d

    return base.map(fin)


# ----------------------------------------------------------------------------- purity

PURE_SHAPES = [
    # (language, template); {L} list variable, {D} dict variable, {N} nested dict with list under key k
    ("jinja", "{{ ctx('L') }}"), ("jinja", "{{ ctx().L }}"), ("jinja", "{{ ctx('D') }}"),
    ("jinja", "{{ ctx('L').append(1) }}"), ("jinja", "{{ ctx('L').extend([1, 2]) }}"), ("jinja", "{{ ctx('L').insert(0, 9) }}"),
    ("jinja", "{{ ctx('L').pop() }}"), ("jinja", "{{ ctx('L').remove(ctx('L')[0]) }}"), ("jinja", "{{ ctx('L').clear() }}"),
    ("jinja", "{{ ctx('L').sort() }}"), ("jinja", "{{ ctx('L').reverse() }}"),
    ("jinja", "{{ ctx('D').update({'zz': 1}) }}"), ("jinja", "{{ ctx('D').setdefault('zz', 1) }}"), ("jinja", "{{ ctx('D').popitem() }}"),
    ("jinja", "{{ ctx('D').pop('k') }}"), ("jinja", "{{ ctx('D').clear() }}"), ("jinja", "{{ ctx('N').k.append(3) }}"),
    ("jinja", "{{ ctx().N.k.append(3) }}"), ("jinja", "{{ ctx().D.update(a=1) }}"), ("jinja", "{% set _ = ctx('L').append(1) %}{{ ctx('L') }}"),
    ("jinja", "{{ ctx('L').append(1) or ctx('L') }}"), ("jinja", "{{ ctx('L') + [1] }}"), ("jinja", "{{ ctx('L') | sort }}"),
    ("jinja", "{% for i in ctx('L') %}{{ i }}{% endfor %}"), ("jinja", "{{ ctx('D').items() | list }}"), ("jinja", "{{ ctx().update({'L': 0}) }}"),
    ("jinja", "{{ ctx('N')['k'].extend([7]) }}"), ("jinja", "{{ ctx('D').__setitem__('q', 1) }}"),
    ("yaql", "<% ctx(L) %>"), ("yaql", "<% ctx().D %>"), ("yaql", "<% ctx(L).append(1) %>"), ("yaql", "<% ctx(L).insert(0, 9) %>"),
    ("yaql", "<% ctx(L).delete(0) %>"), ("yaql", "<% ctx(D).set(zz, 1) %>"), ("yaql", "<% ctx(D).delete(k) %>"), ("yaql", "<% ctx(L) + list(1) %>"),
    ("yaql", "<% ctx(N).k.append(3) %>"), ("yaql", "<% ctx(D).set(k, ctx(L)) %>"), ("yaql", "<% ctx(L).orderBy($) %>"), ("yaql", "<% ctx(L).reverse() %>"),
    ("yaql", "<% ctx(D).keys() %>"), ("yaql", "<% ctx(L).select($) %>"), ("yaql", "<% let(x => ctx(L)) -> $x.append(1) %>"), ("yaql", "<% dict(ctx(D)).set(a, 1) %>"),
]


def run_purity(scn, stats):
    lang_, tmpl = PURE_SHAPES[scn["shape"] % len(PURE_SHAPES)]
    L = scn["L"]
    D = dict(scn["D"])
    D.setdefault("k", 1)
    N = {"k": list(scn["L"]), "other": scn["D"]}
    ctx = {"L": copy.deepcopy(L), "D": copy.deepcopy(D), "N": copy.deepcopy(N), "s": "text", "__state": {"tasks": {}, "routes": [[]], "sequence": []}, "__current_task": {"id": "t", "route": 0}}
    before = copy.deepcopy(ctx)
    raised = None
    try:
        expr_base.evaluate(tmpl, ctx)
    except Exception as e:  # a raised evaluation error is a pass (the oracle needs no model of the result)
        raised = type(e).__name__
    if not same_dict(ctx, before):
        changed = [k for k in before if not same(ctx.get(k), before[k])] + [k for k in ctx if k not in before]
        raise Violation("evaluation-modified-context", {"expression": tmpl, "changed": changed, "before": repr({k: before[k] for k in changed if k in before})[:300], "after": repr({k: ctx.get(k) for k in changed})[:300]})
    # the same expression as a task input: persisted contexts must not change by asking for next tasks
    defn = {"vars": [{"L": copy.deepcopy(L)}, {"D": copy.deepcopy(D)}, {"N": copy.deepcopy(N)}], "tasks": {"t1": {"action": "core.act", "input": {"first": tmpl, "second": tmpl}}}}
    try:
        drv = provider.Driver(defn, {})
        if not drv.spec.inspect():
            drv.start()
            c0 = copy.deepcopy(drv.c.serialize()["state"]["contexts"])
            try:
                drv.c.get_next_tasks()
            except Exception:
                pass
            c1 = drv.c.serialize()["state"]["contexts"]
            if not same(c0, c1):
                raise Violation("get_next_tasks-modified-persisted-context", {"expression": tmpl, "before": repr(c0)[:300], "after": repr(c1)[:300]})
    except provider.EngineException:
        pass
    stats.label("lang:" + lang_, "raised" if raised else "evaluated")
    stats.extra["shape:%02d" % (scn["shape"] % len(PURE_SHAPES))] += 1
    if not raised:
        stats.mark_nontrivial(scn)
        stats.sample({"expression": tmpl, "L": repr(L)[:80], "D": repr(D)[:80]})


def strat_purity(tier):
    simple = st.one_of(st.integers(-5, 5), st.sampled_from(["a", "b", ""]), st.booleans(), st.none())
    return st.fixed_dictionaries({
        "shape": st.integers(0, len(PURE_SHAPES) - 1),
        "L": st.lists(st.integers(-5, 5), max_size=4),
        "D": st.dictionaries(st.sampled_from(["k", "a", "b", "zz"]), simple, max_size=3),
    })


# ----------------------------------------------------------------------------- hiding

INTERNALS = ["__state", "__current_task", "__current_item", "__vars"]


def hiding_cases(tier=None):
    out = []
    for name in INTERNALS:
        for lang_, forms in (
            ("yaql", ["<% ctx(NAME) %>", "<% ctx('NAME') %>", '<% ctx("NAME") %>', "<% ctx().NAME %>", "<% ctx()['NAME'] %>", "<% ctx().get(NAME) %>", "<% ctx().get('NAME', 'dflt') %>", "<% 'NAME' in ctx().keys() %>", "<% ctx().keys() %>", "<% ctx() %>"]),
            ("jinja", ["{{ ctx('NAME') }}", '{{ ctx("NAME") }}', "{{ ctx().NAME }}", "{{ ctx()['NAME'] }}", "{{ ctx().get('NAME') }}", "{{ ctx().get('NAME', 'dflt') }}", "{{ 'NAME' in ctx() }}", "{{ ctx().keys() | list }}", "{{ ctx() }}"]),
        ):
            for f in forms:
                out.append({"lang": lang_, "expr": f.replace("NAME", name), "name": name})
    return out


SECRET = "s3cr3t-internal-marker"


def run_hiding(scn, stats):
    ctx = {
        "x": 1,
        "__state": {"marker": SECRET, "tasks": {}, "routes": [[]], "sequence": []},
        "__current_task": {"id": "t", "route": 0, "result": SECRET},
        "__current_item": SECRET,
        "__vars": SECRET,
    }
    try:
        val = expr_base.evaluate(scn["expr"], copy.deepcopy(ctx))
    except exc.ExpressionEvaluationException:
        stats.label("raised")
        stats.mark_nontrivial(scn)
        return
    except Exception as e:  # noqa
        raise Violation("internal-access-raised-non-expression-error", {"expression": scn["expr"], "error": repr(e)})
    blob = json.dumps(val, default=str)
    if SECRET in blob or (not isinstance(val, bool) and any(n in blob for n in INTERNALS)):
        raise Violation("internal-name-readable-through-ctx", {"expression": scn["expr"], "value": blob[:300]})
    stats.label("yielded-nothing-internal")
    stats.mark_nontrivial(scn)
    stats.sample({"expression": scn["expr"], "value": blob[:80]})


PARTS = [
    Part("transport", run_transport, strat_transport, {"quick": 4000, "thorough": 100000}, rule=RULE),
    Part("purity", run_purity, strat_purity, {"quick": 1500, "thorough": 20000}, rule="every expression shape of PURE_SHAPES x generated list/dict values; context deep-compared before/after evaluate(); persisted contexts compared around get_next_tasks()"),
    Part("hiding", run_hiding, enumerate=hiding_cases, rule="exhaustive: every internal name x every documented access form x both languages"),
]
