"""C14 - the composed graph is exactly the definition's tasks and transitions.

Oracle: an independent reference construction from the IR (never touching the composer):
  nodes  = tasks reachable from the roots (+ the engine commands noop/fail/continue that are targeted);
  roots  = tasks nothing transitions into;
  edges  = one per (task, transition index, target) carrying criteria [when] (or []) and ref = index;
           a `retry` target adds no edge but a retry policy {when: condition or completed(), count: 3};
  keys   = the k-th edge between one pair, in transition order (persisted state refers to them);
  attrs  = barrier ('*' or N) exactly on join tasks, retry exactly where declared.
Compared as sets against compose(spec).serialize().  In addition: every permutation (<= 24, else 12
sampled) of the declaration order of tasks yields the same canonical graph, and
deserialize(serialize(g)).serialize() == serialize(g) including edge keys.
"""
import copy
import itertools

from hypothesis import strategies as st

from orquesta import graphing
from orquesta.composers import native as composer
from orquesta.specs import native as native_specs

from vf import lang
from vf.lang import E
from vf.props import common
from vf.runner import Part, Reject, Violation

RULE = (
    "accepted definitions generated with arbitrary fan-out/fan-in, any cycles, nested and mixed splits, several "
    "transitions between one pair, engine commands incl. retry, join all/N, retry policies; plus permutations of the "
    "declaration order; non-trivial = parallel edges between one pair, or a cycle, or a task reachable over >=3 "
    "distinct paths from a split, or a retry command; distinct by hash of the definition"
)
ASSUMPTIONS = ["the node attribute `splits` (route bookkeeping) is not part of the statement and is not compared"]

WHENS = [["true"], ["true"], ["succeeded"], ["failed"], ["completed"], ["res_eq", "code", 200]]


@st.composite
def graph_ir(draw):
    n = draw(st.integers(1, 7))
    names = ["t%d" % i for i in range(n)]
    allow_cycles = draw(st.booleans())
    tasks = {}
    lng = draw(st.sampled_from([lang.YAQL, lang.JINJA]))
    for i, nm in enumerate(names):
        t = {"action": "core.act", "next": []}
        pool = names[1:] if allow_cycles else names[i + 1 :]
        for k in range(draw(st.sampled_from([0, 1, 1, 2, 2, 3]))):
            do = draw(st.lists(st.sampled_from(pool), max_size=3, unique=True)) if pool else []
            if draw(st.integers(0, 3)) == 0:
                do = do + [draw(st.sampled_from(["noop", "fail", "continue", "retry"]))]
            tr = {"when": E(list(draw(st.sampled_from(WHENS))), lng), "do": do, "publish": []}
            if do and draw(st.integers(0, 3)) == 0:
                # the documented string form of `do`, possibly naming a target twice (still one edge)
                tr["do_str"] = True
                if draw(st.integers(0, 2)) == 0:
                    tr["do_dup"] = draw(st.integers(0, len(do) - 1))
            t["next"].append(tr)
        tasks[nm] = t
    ir = {"tasks": tasks}
    inb = lang.inbound(ir)
    for nm in names:
        if len(inb[nm]) >= 2 and draw(st.integers(0, 2)) == 0:
            tasks[nm]["join"] = draw(st.sampled_from(["all", 0, 1, 2, len(inb[nm])]))
        if draw(st.integers(0, 5)) == 0:
            tasks[nm]["retry"] = {"count": draw(st.integers(0, 3))}
            if draw(st.booleans()):
                tasks[nm]["retry"]["when"] = E(["failed"], lng)
            if draw(st.booleans()):
                tasks[nm]["retry"]["delay"] = draw(st.integers(0, 9))
    return ir


def reference(ir, defn):
    """Reference graph: (nodes{name: attrs}, edges set of (u, v, key, ref, criteria tuple), roots)."""
    tasks = ir["tasks"]
    targeted = set()
    for s, t in tasks.items():
        for tr in t.get("next") or []:
            for tg in lang.targets(tr):
                targeted.add(tg)
    roots = sorted(n for n in tasks if n not in targeted)
    reach, stack = set(), list(roots)
    while stack:
        x = stack.pop()
        if x in reach:
            continue
        reach.add(x)
        if x not in tasks:
            continue
        for tr in tasks[x].get("next") or []:
            for tg in lang.targets(tr):
                if tg != "retry" and tg not in reach:
                    stack.append(tg)
    nodes, edges = {}, set()
    for name in reach:
        attrs = {}
        t = tasks.get(name)
        if t is None:
            nodes[name] = attrs
            continue
        if t.get("join") is not None:
            attrs["barrier"] = "*" if t["join"] == "all" else t["join"]
        if t.get("retry"):
            r = t["retry"]
            attrs["retry"] = {"when": lang.render(r["when"]) if r.get("when") is not None else None, "count": r["count"], "delay": r.get("delay")}
        count = {}
        for i, tr in enumerate(t.get("next") or []):
            w = tr.get("when")
            crit = () if (w is None or w["e"] == ["true"]) else (lang.render(w),)
            for tg in lang.targets(tr):
                if tg == "retry":
                    attrs["retry"] = {"when": crit[0] if crit else "<% completed() %>", "count": 3}
                    continue
                k = count.get(tg, 0)
                count[tg] = k + 1
                edges.add((name, tg, k, i, crit))
        nodes[name] = attrs
    return nodes, edges, roots


def observed(ser):
    nodes = {}
    edges = set()
    for node, adj in zip(ser["nodes"], ser["adjacency"]):
        attrs = {k: v for k, v in node.items() if k not in ("id", "splits")}
        nodes[node["id"]] = attrs
        for e in adj:
            edges.add((node["id"], e["id"], e["key"], e.get("ref"), tuple(e.get("criteria") or ())))
    return nodes, edges


def canonical(ser):
    nodes = sorted(({k: v for k, v in n.items() if k != "splits"} for n in ser["nodes"]), key=lambda n: n["id"])
    adj = {n["id"]: sorted(a, key=lambda e: (e["id"], e["key"])) for n, a in zip(ser["nodes"], ser["adjacency"])}
    return common.jd({"nodes": nodes, "adj": adj, "directed": ser.get("directed"), "multigraph": ser.get("multigraph")})


def run(scn, stats):
    ir = scn["ir"]
    defn = lang.to_defn(ir)
    for name, t in ir["tasks"].items():
        for i, tr in enumerate(t.get("next") or []):
            if tr.get("do_str"):
                do = list(tr["do"])
                if tr.get("do_dup") is not None:
                    do.insert(0, do[tr["do_dup"]])
                defn["tasks"][name]["next"][i]["do"] = ", ".join(do)
    try:
        spec = native_specs.WorkflowSpec(copy.deepcopy(defn))
        if spec.inspect():
            raise Reject()
    except Reject:
        raise
    except Exception as e:  # noqa
        raise Violation("inspect-raised", {"error": repr(e), "definition": defn})
    try:
        g = composer.WorkflowComposer.compose(spec)
        ser = g.serialize()
    except Exception as e:  # noqa
        raise Violation("compose-raised-on-accepted-definition", {"error": repr(e), "definition": defn})
    rn, re_, rroots = reference(ir, defn)
    on, oe = observed(ser)
    if set(on) != set(rn):
        raise Violation("task-set-differs", {"missing": sorted(set(rn) - set(on)), "extra": sorted(set(on) - set(rn)), "definition": defn})
    if oe != re_:
        raise Violation("edge-set-differs", {"missing": sorted(map(list, re_ - oe)), "extra": sorted(map(list, oe - re_)), "definition": defn})
    for name in rn:
        if on[name] != rn[name]:
            raise Violation("node-attributes-differ", {"task": name, "expected": rn[name], "observed": on[name], "definition": defn})
    if [r["id"] for r in g.roots] != rroots:
        raise Violation("roots-differ", {"expected": rroots, "observed": [r["id"] for r in g.roots], "definition": defn})
    # serialisation round trip, twice
    ser2 = graphing.WorkflowGraph.deserialize(copy.deepcopy(ser)).serialize()
    if common.jd(ser2) != common.jd(ser):
        raise Violation("graph-roundtrip-differs", {"definition": defn, "before": ser, "after": ser2})
    # declaration order
    names = list(defn["tasks"])
    perms = list(itertools.permutations(names)) if len(names) <= 4 else None
    if perms is None:
        import random

        rnd = random.Random(scn.get("perm_seed", 0))
        perms = []
        for _ in range(6):
            p = list(names)
            rnd.shuffle(p)
            perms.append(tuple(p))
        perms.append(tuple(reversed(names)))
    base = canonical(ser)
    for p in perms:
        d2 = dict(defn, tasks={k: copy.deepcopy(defn["tasks"][k]) for k in p})
        s2 = native_specs.WorkflowSpec(copy.deepcopy(d2))
        if s2.inspect():
            raise Violation("inspection-depends-on-declaration-order", {"order": list(p), "definition": d2})
        c2 = canonical(composer.WorkflowComposer.compose(s2).serialize())
        if c2 != base:
            raise Violation("graph-depends-on-declaration-order", {"order": list(p), "definition": defn})
    labels = []
    pairs = {}
    for (u, v, k, ref, crit) in re_:
        pairs[(u, v)] = pairs.get((u, v), 0) + 1
    if any(c > 1 for c in pairs.values()):
        labels.append("parallel-edges")
    rch = lang.reach(ir)
    if any(n in rch[n] for n in ir["tasks"]):
        labels.append("cycle")
    if any("retry" in lang.targets(tr) for t in ir["tasks"].values() for tr in t.get("next") or []):
        labels.append("retry-command")
    if any(lang.is_split(ir, n) for n in rn if n in ir["tasks"]):
        labels.append("split")
    for lab in labels:
        stats.label(lab)
    stats.extra["permutations"] += len(perms)
    if labels:
        stats.mark_nontrivial(scn)
        stats.sample({"definition": defn, "labels": labels})


def strategy(tier):
    return st.builds(lambda ir, ps: {"ir": ir, "perm_seed": ps}, graph_ir(), st.integers(0, 10**6))


PARTS = [Part("compose", run, strategy, {"quick": 2000, "thorough": 30000}, rule=RULE)]
