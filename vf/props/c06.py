"""C06 - a task sees exactly the variables published by its causal ancestors.

Reference model: contexts with provenance.  Every publish is an *event* (variable, value, id); an
event supersedes all events of the same variable that had reached its publisher (not only the one
that was visible there).  The context of an execution maps each variable to the resolved value, the
event it comes from and the set of events received.  It is computed from provider-side facts only:
  * start tasks see input + vars;
  * the execution started by a satisfied transition sees its predecessor's context overlaid, in
    order, with that transition's publishes (a publish may read the rolling context);
  * a join sees the merge of its arrivals: candidates that another candidate supersedes are dropped
    (a branch that merely inherited an older value never overrides a newer one); if one candidate is
    left it is the value; only if several independent ones are left does arrival order decide - the
    later arrival wins;
  * a variable published only on a transition that does not lead to the task is not visible.
Checked on every offered task: the user-visible context (names not starting with __) and the rendered
action input (every pool variable is referenced, in all documented forms and both languages).  When
the workflow succeeds, each output variable must be the single non-superseded candidate among the
contexts reaching the terminal points, or - if several independent ones remain - one of them.
"""
import collections
import copy

from vf import gen, lang, refsem
from vf.props import common
from vf.runner import Part, Violation

RULE = (
    "random definitions (acyclic and with one counter loop) with taint-token publishes placed on arbitrary "
    "transitions - conflicting (same variable on concurrent branches, on a branch and upstream, in loop iterations) "
    "and unique - copies of other variables, both languages and all reference forms, x outcome tables x schedules; "
    "non-trivial = a join whose arrivals carry >= 2 different events for one variable (classes: superseding / "
    "independent), or a multiply-referenced task, or a loop with >= 2 iterations; distinct by hash"
)
ASSUMPTIONS = [
    "published values are scalars or lists (dict values deep-merge on overlay, about which the property says nothing)",
    "for multiply-referenced non-join tasks the execution a context belongs to is identified by matching: the observed context must equal one of the model's pending contexts for that task",
    "known finding R3 (a context that merely inherited an older value is overlaid after the newer publish) is matched narrowly: the observed value is a superseded candidate of the very same join / terminal merge",
    "runs are abandoned (counted) at the trigger of known finding R1 (late arrival at a fired join N) owned by C07",
]

VARS = ["x", "y", "z", "n"]


class Ctx(object):
    """var -> (value, event id, frozenset of received event ids)"""

    def __init__(self, m=None):
        self.m = dict(m or {})

    def copy(self):
        return Ctx(self.m)

    def values(self):
        return {v: e[0] for v, e in self.m.items()}


class Model(object):
    def __init__(self, ir):
        self.ir = ir
        self.sup = {}  # event id -> set of event ids it supersedes (closed)
        self.val = {}
        self.n_ev = 0
        root = {}
        for name, v in ir.get("vars") or []:
            root[name] = self._event(name, copy.deepcopy(v), frozenset())
        self.root = Ctx(root)
        self.pending = collections.defaultdict(list)  # task or (task, route) -> [Ctx]
        self.joins = collections.defaultdict(list)  # (task, route) -> [(src, Ctx)] in arrival order
        self.running = {}  # (task, route) -> Ctx
        self.leaves = []  # contexts reaching terminal points
        self.split = {n: lang.is_split(ir, n) for n in ir["tasks"]}
        for r in lang.roots(ir):
            self.pending[(r, 0)].append(self.root.copy())
        self.classes = set()

    def _event(self, var, value, received):
        self.n_ev += 1
        eid = "e%d:%s" % (self.n_ev, var)
        s = set()
        for r in received:
            s.add(r)
            s |= self.sup.get(r, set())
        self.sup[eid] = s
        self.val[eid] = value
        return (value, eid, frozenset(received) | {eid})

    def merge(self, arrivals):
        """arrivals: list of Ctx in arrival order -> (Ctx, info per var)"""
        out, info = {}, {}
        for v in set(k for c in arrivals for k in c.m):
            cands = [(i, c.m[v]) for i, c in enumerate(arrivals) if v in c.m]
            eids = {c[1][1] for c in cands}
            dead = set()
            for e in eids:
                dead |= self.sup[e] & eids
            live = [c for c in cands if c[1][1] not in dead]
            received = frozenset().union(*[c[1][2] for c in cands])
            win = live[-1][1]
            out[v] = (win[0], win[1], received)
            live_ids = {c[1][1] for c in live}
            info[v] = {"live": sorted(live_ids), "dead": sorted(dead), "values": {e: self.val[e] for e in eids}}
            if len(eids) >= 2:
                self.classes.add("independent" if len(live_ids) >= 2 else "superseding")
        return Ctx(out), info

    def publish(self, ctx, tr, status, result):
        c = ctx.copy()
        for var, val in tr.get("publish") or []:
            try:
                value = lang.ev(val, status, result, c.values())
            except lang.ModelError:
                continue
            received = c.m[var][2] if var in c.m else frozenset()
            c.m[var] = self._event(var, value, received)
        return c


class Watch(object):
    def __init__(self, ir, fo):
        self.ir, self.fo = ir, fo
        self.m = Model(ir)
        self.join_infos = {}

    def __call__(self, drv, rec):
        op = rec["op"]
        m = self.m
        tasks = self.ir["tasks"]
        hist = lambda: common.history_summary(_R(drv))[-30:]  # noqa
        if op["op"] == "poll":
            for o in rec["offers"]:
                if o.get("kind") != "new":
                    continue
                tid, rt = o["id"], o["route"]
                t = tasks[tid]
                obs = {v: o["ctx"].get(v, "<absent>") for v in VARS if v in o["ctx"] or any(v == n for n, _ in self.ir.get("vars") or [])}
                jinfo = None
                if t.get("join") is not None:
                    arr = m.joins.pop((tid, rt), [])
                    if not arr:
                        continue  # C07 owns joins offered without arrivals
                    exp, jinfo = m.merge([c for _, c in arr])
                elif m.split.get(tid):
                    cands = m.pending[tid]
                    idx = next((i for i, c in enumerate(cands) if self._same(c, obs)), None)
                    if idx is None:
                        if not cands:
                            continue  # C01 owns unjustified offers
                        raise Violation("context-matches-no-arrival", {"task": tid, "route": rt, "observed": obs, "model_candidates": [c.values() for c in cands], "definition": drv.defn, "history": hist()})
                    exp = cands.pop(idx)
                else:
                    cands = m.pending[(tid, rt)]
                    if not cands:
                        continue
                    exp = cands.pop(0)
                m.running[(tid, rt)] = exp
                want = exp.values()
                for v, got in obs.items():
                    w = want.get(v, "<absent>")
                    if common.jd(got) != common.jd(w):
                        detail = {"task": tid, "route": rt, "variable": v, "observed": got, "expected": w, "definition": drv.defn, "history": hist()}
                        if jinfo and v in jinfo:
                            detail["join"] = jinfo[v]
                            vals = jinfo[v]["values"]
                            detail["observed_is_superseded_candidate"] = any(common.jd(vals[e]) == common.jd(got) for e in jinfo[v]["dead"])
                            detail["observed_is_live_candidate"] = any(common.jd(vals[e]) == common.jd(got) for e in jinfo[v]["live"])
                        leaked = not any(common.jd(val) == common.jd(got) for val in m.val.values())
                        detail["class"] = "unknown-value" if leaked else ("stale-or-leaked")
                        raise Violation("task-context-differs", detail)
                # rendered action input references every pool variable
                if not t.get("with"):
                    ai = (o["actions"][0].get("input") if o["actions"] else None) or {}
                    for v in VARS:
                        if v in ai and v in want and common.jd(ai[v]) != common.jd(want[v]):
                            raise Violation("rendered-input-differs-from-context", {"task": tid, "variable": v, "input": ai[v], "expected": want[v], "definition": drv.defn, "history": hist()})
        elif op["op"] == "done":
            info = self.fo.last or {}
            a = op["a"]
            if not info.get("task_done"):
                return
            c0 = m.running.pop((a[0], a[1]), None)
            if c0 is None:
                return
            t = tasks[a[0]]
            status, result = info.get("task_status"), op.get("result")
            sat = info.get("satisfied") or []
            any_task_target = False
            for i in sat:
                tr = t["next"][i]
                c = m.publish(c0, tr, status, result)
                for tg in lang.targets(tr):
                    if tg == "retry":
                        continue
                    if tg not in tasks:
                        m.leaves.append(c)  # engine command: its record is terminal and carries this context
                        continue
                    any_task_target = True
                    if tasks[tg].get("join") is not None:
                        m.joins[(tg, a[1])].append((a[0], c.copy()))
                    elif m.split.get(tg):
                        m.pending[tg].append(c.copy())
                    else:
                        m.pending[(tg, a[1])].append(c.copy())
            if not sat:
                m.leaves.append(c0)
            self.last_ctx = c0


class _R(object):
    def __init__(self, d):
        self.d = d

    pass


def _same(self, c, obs):
    want = c.values()
    return all(common.jd(obs[v]) == common.jd(want.get(v, "<absent>")) for v in obs)


Watch._same = _same


def run(scn, stats):
    ir = scn["ir"]
    fo = refsem.FlowObserver(ir)
    w = Watch(ir, fo)

    def stop(r):
        return bool(fo.flow.late_arrivals)

    defn, r = common.run(scn, stats, observers=[fo, w], stop=stop)
    if fo.flow.late_arrivals:
        stats.excluded["R1"] += 1
        return
    d = r.d
    stats.label("status:" + d.status())
    m = w.m
    if d.status() == "succeeded" and r.engine_exception is None and not r.truncated:
        try:
            r.step({"op": "output"})
        except Exception:
            pass
        out = d.c.get_workflow_output() or {}
        leaves = list(m.leaves)
        if getattr(w, "last_ctx", None) is not None:
            leaves.append(w.last_ctx)
        if leaves:
            merged, info = m.merge(leaves)
            for name, expr in ir.get("output") or []:
                var = expr["e"][1]
                if var not in info or name not in out:
                    continue
                vals = info[var]["values"]
                live_vals = [vals[e] for e in info[var]["live"]]
                if not any(common.jd(out[name]) == common.jd(v) for v in live_vals):
                    raise Violation("output-not-from-a-live-terminal-candidate", {
                        "variable": var, "observed": out[name], "live_candidates": live_vals,
                        "superseded_candidates": [vals[e] for e in info[var]["dead"]],
                        "observed_is_superseded_candidate": any(common.jd(vals[e]) == common.jd(out[name]) for e in info[var]["dead"]),
                        "definition": defn, "history": common.history_summary(r)[-40:]})
    for c in m.classes:
        stats.label("join-conflict:" + c)
    labels = set(m.classes)
    if any(v >= 2 for k, v in fo.flow.executed.items() if fo.flow.split.get(k)):
        labels.add("split")
    if any(v >= 2 for k, v in fo.flow.executed.items() if k in fo.flow.body):
        labels.add("loop")
    if labels:
        stats.mark_nontrivial(scn)
        stats.sample({"definition": defn, "outcomes": scn["outcomes"], "history": common.history_summary(r, 40), "classes": sorted(labels)})


CFG = gen.cfg(p_loop=0.25, p_join=0.55, join_n=True, max_tasks=7)


def strategy(tier):
    return gen.scenario(CFG, flags={}, max_choices=60, p_fail=0.05)


def strat_directed(tier):
    # branches of different length publish the same variable independently: publish order != arrival order
    return gen.directed_scenario(gen.fork_join_ir(), max_choices=60, p_fail=0.05)


PARTS = [
    Part("provenance", run, strategy, {"quick": 2000, "thorough": 20000}, rule=RULE),
    Part("fork-join", run, strat_directed, {"quick": 1200, "thorough": 12000}, rule="directed fork-join definitions whose branches publish the same variables independently"),
]
