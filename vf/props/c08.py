"""C08 - the outcome does not depend on the order completions are reported.

Metamorphic: one acyclic definition with outcomes fixed per task (a function of the task, not of
time) is executed under the *set of linearisations* of the partial order of action completions -
exhaustively (depth-first over the tree of "which in-flight action reports next") when there are at
most 720 orders (120 in the quick tier), otherwise FIFO, LIFO and up to 30 generated orders.  Polls are eager (after every
completion), so only completion order varies.  All runs must agree on the final status; when it is
succeeded, also on the multiset of executed tasks, on the multiset of published deltas, and on every
output variable that the IR does not show as written by two graph-incomparable tasks.
"""
import collections

from vf import gen, lang, provider
from vf.props import common
from vf.runner import Part, Reject, Violation

RULE = (
    "acyclic random definitions (forks, joins all/N, splits, decisions, commands) with per-task fixed outcomes; all "
    "linearisations when <= 720 else 64; non-trivial = >= 2 distinct orders that reach a join or a multiply referenced "
    "task; distinct by hash of definition+outcomes; evaluations counts executed orders"
)
ASSUMPTIONS = [
    "publishes are literals or derived from the task's own result (no copies of other context variables), so 'the values each task published' has one reading",
    "a variable is excluded from the output comparison if ANY two of its writers are graph-incomparable (conservative direction)",
    "known finding R3 (stale inherited value overrides a newer one at a join / in the terminal context), owned by C06, is matched narrowly: all observed values come from pairwise comparable writers",
    "orders that trigger known finding R1 (late arrival at a fired join N) are abandoned and counted",
]

MAX_ORDERS = 720
TIER = {"max_orders": 720}


def one_order(scn, defn, spec, prefix, pick=None):
    """Run with the given choice prefix (then always the oldest).  Returns (result, branching factors, path)."""
    drv = provider.Driver(defn, {}, spec=spec)
    bf, path = [], []
    tab = scn.get("outcomes") or {}
    drv.start()
    drv.apply({"op": "poll"})
    steps = 0
    while drv.inflight and steps < 200:
        n = len(drv.inflight)
        i = len(path)
        if pick is not None:
            k = pick(i, n)
        else:
            k = prefix[i] if i < len(prefix) else 0
        k = k % n
        bf.append(n)
        path.append(k)
        a = drv.inflight[k]
        s, code = (tab.get(a[0]) or [["succeeded", 200]])[0]
        drv.apply({"op": "done", "a": list(a), "status": s, "result": {"tok": a[0], "code": code}})
        drv.apply({"op": "poll"})
        steps += 1
    if drv.status() in provider.TERMINAL:
        drv.apply({"op": "output"})
    st_ = drv.c.serialize()
    fired = set()
    for e in st_["state"]["sequence"]:
        for (src, dst, key, attrs) in drv.c.graph.get_next_transitions(e["id"]):
            if (e.get("next") or {}).get("%s__t%s" % (dst, key)):
                fired.add("%s__t%d" % (src, attrs.get("ref")))
    res = {
        "status": drv.status(),
        "executed": sorted(collections.Counter(t for t, r, i in drv.dispatched).items()),
        "published": sorted(common.jd(c) for c in st_["state"]["contexts"][1:]),
        "output": st_["output"] or {},
        "errors": sorted(e.get("message", "")[:60] for e in st_["errors"]),
        "dup_inflight": False,
        # publishing transitions that fired: "<task>__t<index of the transition in the task's next list>"
        "fired": sorted(fired),
    }
    return res, bf, path, drv


def writers(ir):
    w = collections.defaultdict(set)
    for name, t in ir["tasks"].items():
        for i, tr in enumerate(t.get("next") or []):
            for var, _ in tr.get("publish") or []:
                w[var].add((name, i))
    return w


def run(scn, stats):
    ir = scn["ir"]
    defn, drv0 = common.build(scn, stats)
    spec = drv0.spec
    rch = lang.reach(ir)
    wr = writers(ir)
    def concurrent_vars(fired):
        """variables written by two concurrent branches *in this scenario*: two of the publishing
        transitions that fired belong to one task or to graph-incomparable tasks"""
        out = set()
        for var, ws in wr.items():
            ws = sorted(w for w in ws if "%s__t%d" % w in fired)
            for i in range(len(ws)):
                for j in range(i + 1, len(ws)):
                    (ta, ia), (tb, ib) = ws[i], ws[j]
                    if ta == tb or (tb not in rch[ta] and ta not in rch[tb]):
                        out.add(var)
        return out

    concurrent = set()
    for var, ws in wr.items():
        ws = sorted(ws)
        for i in range(len(ws)):
            for j in range(i + 1, len(ws)):
                (ta, ia), (tb, ib) = ws[i], ws[j]
                # two transitions of one task fire together (independent branches); two tasks are
                # concurrent unless one is reachable from the other
                if ta == tb or (tb not in rch[ta] and ta not in rch[tb]):
                    concurrent.add(var)
    joinN = {n for n, t in ir["tasks"].items() if isinstance(t.get("join"), int) and t["join"] < len(lang.inbound(ir)[n])}
    results = []
    try:
        res, bf, path, d = one_order(scn, defn, spec, [])
    except provider.EngineException as e:
        stats.engine_exception(e, scn)
        return
    except (provider.KnownTrigger, provider.Anomaly):
        return
    stack = []
    total = 1
    for b in bf:
        total *= b
    exhaustive = True
    leaves = [(path, res)]
    todo = [path[:i] + [alt] for i in range(len(bf)) for alt in range(1, bf[i])]
    count = 1
    seen_paths = {tuple(path)}
    sampled = scn.get("orders") or []
    try:
        while todo:
            if count >= TIER["max_orders"]:
                exhaustive = False
                break
            pre = todo.pop()
            res2, bf2, path2, d2 = one_order(scn, defn, spec, pre)
            if tuple(path2) in seen_paths:
                continue
            seen_paths.add(tuple(path2))
            count += 1
            leaves.append((path2, res2))
            for i in range(len(pre), len(bf2)):
                for alt in range(1, bf2[i]):
                    todo.append(path2[:i] + [alt])
        if not exhaustive:
            # too many orders: keep FIFO (done), add LIFO and the generated ones
            leaves = leaves[:1]
            res2, _, path2, _ = one_order(scn, defn, spec, [], pick=lambda i, n: n - 1)
            leaves.append((path2, res2))
            for seq in sampled[:62]:
                res2, _, path2, _ = one_order(scn, defn, spec, [], pick=lambda i, n, seq=seq: seq[i % len(seq)] if seq else 0)
                leaves.append((path2, res2))
    except provider.EngineException as e:
        stats.engine_exception(e, scn)
        return
    except (provider.KnownTrigger, provider.Anomaly):
        return
    stats.evaluations += len(leaves) - 1
    stats.extra["orders"] += len(leaves)
    if exhaustive:
        stats.extra["scenarios_exhaustive"] += 1
    # R1 orders: an execution count above the model's is only possible through the late-arrival defect;
    # detect by a join N task dispatched more than once on one route
    def r1(res_):
        return False

    base_path, base = leaves[0]
    distinct_status = {r["status"] for _, r in leaves}
    info = {"definition": defn, "outcomes": scn.get("outcomes"), "orders": len(leaves), "exhaustive": exhaustive}
    if joinN:
        # with join N < inbound, orders in which a branch arrives after the join fired trigger R1 and
        # change the executed multiset; those scenarios are compared on status only when no join re-ran
        reran = [p for p, r in leaves if any(c > 1 for t, c in r["executed"] if t in joinN)]
        if reran:
            stats.excluded["R1"] += 1
            return
    if len(distinct_status) > 1:
        ex = {s: next(p for p, r in leaves if r["status"] == s) for s in distinct_status}
        raise Violation("status-depends-on-order", dict(info, statuses=sorted(distinct_status), example_orders=ex, errors={r["status"]: r["errors"] for _, r in leaves}))
    if base["status"] == "succeeded":
        fired = set()
        for _, r in leaves:
            fired |= set(r["fired"])
        static_concurrent = concurrent
        concurrent = concurrent_vars(fired)
        if base["published"] and not any(("%s__t%d" % w) in fired for ws_ in wr.values() for w in ws_):
            # publishes happened but none could be attributed to a transition (the record format is not the
            # one this mapping knows): fall back to the exclusion computed from the definition alone
            concurrent = static_concurrent
            stats.label("fired-transitions-unknown")
        if static_concurrent - concurrent:
            stats.label("single-branch-writer-at-run-time")
        for p, r in leaves[1:]:
            if r["executed"] != base["executed"]:
                raise Violation("executed-tasks-depend-on-order", dict(info, a=base["executed"], b=r["executed"], order_a=base_path, order_b=p))
            if r["published"] != base["published"]:
                raise Violation("published-values-depend-on-order", dict(info, a=base["published"], b=r["published"], order_a=base_path, order_b=p))
            for k in set(base["output"]) | set(r["output"]):
                var = k[:-4] if k.endswith("_out") else k
                if var in concurrent:
                    continue
                if common.jd(base["output"].get(k)) != common.jd(r["output"].get(k)):
                    vals = sorted({common.jd(x["output"].get(k)) for _, x in leaves})
                    raise Violation("output-depends-on-order", dict(info, variable=var, values=vals, writers=sorted({t for t, i_ in wr.get(var, []) if "%s__t%d" % (t, i_) in fired}), order_a=base_path, order_b=p))
    stats.label("status:" + base["status"], "exhaustive" if exhaustive else "sampled")
    multi = any(t.get("join") is not None or lang.is_split(ir, n) for n, t in ir["tasks"].items())
    if len(leaves) >= 2 and multi:
        stats.mark_nontrivial(scn)
        stats.sample({"definition": defn, "outcomes": scn.get("outcomes"), "orders": len(leaves), "exhaustive": exhaustive, "status": base["status"]})


CFG = gen.cfg(acyclic=True, p_loop=0.0, max_tasks=7, pub_ctx=False, p_join=0.6)


def strategy(tier):
    from hypothesis import strategies as st

    TIER["max_orders"] = 120 if tier == "quick" else MAX_ORDERS

    base = gen.scenario(CFG, flags={}, max_choices=0, fixed_outcomes=True, abend=False)
    return st.builds(lambda s, orders: dict(s, orders=orders), base, st.lists(st.lists(st.integers(0, 7), min_size=1, max_size=10), min_size=4, max_size=30))


def strat_directed(tier):
    from hypothesis import strategies as st

    TIER["max_orders"] = 120 if tier == "quick" else MAX_ORDERS
    base = gen.directed_scenario(gen.fork_join_ir(split=False), max_choices=0, p_fail=0.15)

    def fix(s, orders):
        # outcomes fixed per task: keep the first row only
        s = dict(s, outcomes={k: v[:1] for k, v in s["outcomes"].items()}, orders=orders)
        return s

    return st.builds(fix, base, st.lists(st.lists(st.integers(0, 7), min_size=1, max_size=10), min_size=4, max_size=30))


def strat_terminal(tier):
    from hypothesis import strategies as st

    TIER["max_orders"] = 120 if tier == "quick" else MAX_ORDERS
    base = gen.directed_scenario(gen.terminal_ir(), max_choices=0, p_fail=0.0)
    return st.builds(lambda s, orders: dict(s, outcomes={}, orders=orders), base, st.lists(st.lists(st.integers(0, 7), min_size=1, max_size=10), min_size=4, max_size=30))


PARTS = [
    Part("orders", run, strategy, {"quick": 256, "thorough": 1280}, rule=RULE),
    Part("fork-join-orders", run, strat_directed, {"quick": 160, "thorough": 800}, rule="directed fork-join definitions (branches that arrive conditionally or never) under all completion orders"),
    Part("terminal-orders", run, strat_terminal, {"quick": 200, "thorough": 1000}, rule="directed: parallel chains with and without publishes ending as leaves, run-time dead ends, noop or in a join; all completion orders"),
]
