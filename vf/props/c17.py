"""C17 - rerun re-executes only what was asked and converges to the clean outcome.

Phase 1: an acyclic definition with outcomes fixed per task runs to rest (any schedule).  On the way
a rerun request is issued while the workflow is still active: it must be rejected and leave the
persisted state byte-identical; so must a request naming an execution that does not exist.
Phase 2: at full rest a rerun is requested - default (no list), the failed executions explicitly, a
failed task together with one of its own descendants (collapse), with reset_items on/off.  Once
accepted the status must be `resuming`; the re-executed tasks now succeed, everything else keeps its
outcome; if another task fails the procedure repeats (<= 4 rounds).
Oracle:
  * after an accepted rerun the workflow is never quiescent in a non-terminal status (nothing in
    flight, nothing offered, status resuming/running);
  * twin: a clean run of the same definition in which every re-executed task succeeds at its first
    attempt and every other outcome is the same must end with the same status; when succeeded, the
    executed multiset (after discounting, per re-executed execution, the failed first attempts) and
    every output variable with at most one publish event must be equal - i.e. exactly the requested
    tasks and what follows from them ran again, nothing that had completed elsewhere was repeated.
"""
import collections
import json

from hypothesis import strategies as st

from vf import gen, lang, provider, refsem, sched
from vf.props import common
from vf.runner import Part, Reject, Violation

RULE = (
    "acyclic random definitions (forks, joins, handlers, fail commands, with-items) with per-task fixed outcomes x "
    "schedules; rerun variants: rejected-while-active, non-existent execution, default, explicit list, task + own "
    "descendant, reset_items; up to 4 rounds; non-trivial = an accepted rerun with a parallel branch that had due or "
    "running work left, or a with-items partial failure, or >= 2 rounds; distinct by hash"
)
ASSUMPTIONS = [
    "rerun while stale actions are still in flight is not generated here (the statement speaks of a completed workflow); all in-flight actions are completed first",
    "the clean-run twin is compared only for histories in which no action reported after the workflow had stopped (such late executions are flagged terminal by the engine and whether a default rerun should pick them is not settled by the statement); rejection, resuming and never-stuck are checked on all histories",
    "known findings R10 (an accepted rerun that selects nothing leaves the workflow resuming forever) and R11 (rerun after a fail command offers the engine command `fail` as a task) are matched narrowly and counted",
]


def executed(drv):
    return collections.Counter((t, i) for t, r, i in drv.dispatched)


def run(scn, stats):
    ir = scn["ir"]
    defn, drv = common.build(scn, stats)
    fo = refsem.FlowObserver(ir)
    drv.observers.append(fo)
    flow = fo.flow
    r = sched.Run(drv, scn, {"tok": "task"})
    info = {"definition": defn, "outcomes": scn["outcomes"]}
    late_failed = set()
    late_any = []

    def late(d, rec_):
        # a failure reported after the workflow had already stopped: the engine flags such an execution
        # terminal, so a default rerun re-executes it as well (even if a transition handles the failure)
        if rec_["op"]["op"] == "done" and rec_["before"] in provider.TERMINAL:
            late_any.append(1)
        if rec_["op"]["op"] == "done" and rec_["op"]["status"] in ("failed", "timeout", "abandoned") and rec_["before"] in provider.TERMINAL:
            late_failed.add((rec_["op"]["a"][0], rec_["op"]["a"][1]))

        a_ = rec_["op"].get("a")
        if rec_["op"]["op"] == "done" and a_ and a_[2] is not None:
            # items whose success was reported while the workflow was still active
            if rec_["op"]["status"] == "succeeded" and rec_["before"] not in provider.TERMINAL:
                ok_items.add(tuple(a_))
            else:
                ok_items.discard(tuple(a_))

    ok_items = set()
    drv.observers.append(late)
    labels = set()
    reran = collections.Counter()  # (task, item) -> failed attempts that were re-executed
    owed = set()  # failed executions selected by a rerun
    skip_executed = False
    reset_owed = set()  # executions whose items a rerun with reset_items has reset
    rounds = 0
    skip_twin = False
    try:
        # ---- phase 1, with a premature rerun request somewhere
        ch = list(scn["choices"])
        k = scn["early"] % (len(ch) + 1)
        r.scn = dict(scn, choices=ch[:k], controls=[])
        r.flags["finish"] = 0
        r.run()
        if drv.status() not in provider.TERMINAL:
            before = common.jd(drv.c.serialize())
            rec = r.step({"op": "rerun", "tasks": None})
            if not rec["rejected"]:
                raise Violation("rerun-accepted-on-active-workflow", dict(info, status=rec["before"], history=common.history_summary(r)))
            if common.jd(drv.c.serialize()) != before:
                raise Violation("rejected-rerun-changed-state", dict(info, history=common.history_summary(r)))
            labels.add("rejected-while-active")
        r.scn = dict(scn, choices=ch[k:], controls=[])
        r.flags["finish"] = 1
        # busy: the rerun is requested as soon as the workflow is failed, while other actions are still in flight
        busy = bool(scn.get("busy"))
        r.run(stop=lambda rr: bool(flow.late_arrivals) or (busy and drv.status() == "failed"))
        if flow.late_arrivals:
            stats.excluded["R1"] += 1
            return
        if not r.at_rest() and not (busy and drv.status() == "failed"):
            return
        if drv.inflight and drv.status() == "failed":
            labels.add("rerun-with-actions-in-flight")
        # a request for an execution that does not exist
        before = common.jd(drv.c.serialize())
        rec = r.step({"op": "rerun", "tasks": [["nosuch_task", 0, False]] if scn["bogus"] % 2 else [[sorted(ir["tasks"])[0], 77, False]]})
        if not rec["rejected"]:
            raise Violation("rerun-of-nonexistent-execution-accepted", dict(info, history=common.history_summary(r)))
        if common.jd(drv.c.serialize()) != before:
            raise Violation("rejected-rerun-changed-state", dict(info, history=common.history_summary(r)))
        # ---- phase 2
        final_outcomes = {k_: [list(x) for x in v] for k_, v in (scn["outcomes"] or {}).items()}
        while rounds < 4 and drv.status() == "failed":
            failed = list(flow.unhandled)
            flow.unhandled = []
            variant = scn["variant"] if rounds == 0 else "default"
            info["variant"] = variant
            info["events"] = sorted(flow.events)
            info["failed_executions"] = [list(x) for x in failed]
            if not failed:
                labels.add("failed-without-failed-task")
            rr = lang.reach(ir)
            if variant == "default" or not failed:
                tasks = None
            elif variant == "explicit":
                tasks = [[t, rt, False] for t, rt in failed]
            elif variant == "reset":
                tasks = [[t, rt, True] for t, rt in failed]
            else:  # a failed task plus one of its own descendants that also ran (must collapse)
                t0, rt0 = failed[0]
                # (only executions that have completed: a request naming one that is still running - possible
                # when the workflow failed through another task - is rejected since fix R32)
                busy_now = {(a_[0], a_[1]) for a_ in list(drv.inflight) + list(drv.dormant)}
                desc = [(t, rt) for (t, rt, i) in drv.dispatched if t in rr[t0] and (t, rt) not in busy_now]
                tasks = [[t0, rt0, False]] + ([[desc[0][0], desc[0][1], False]] if desc else [])
                if desc:
                    labels.add("task-plus-descendant")
                running_now = sorted(b_ for b_ in busy_now if b_[0] in ir["tasks"] and not ir["tasks"][b_[0]].get("with"))
                if running_now:
                    # a request that also names an execution whose action is still running: either rejected (no
                    # effect) or accepted - then the running action's report must not make the engine raise
                    before_ = common.jd(drv.c.serialize())
                    rec_ = r.step({"op": "rerun", "tasks": tasks + [[running_now[0][0], running_now[0][1], False]]})
                    labels.add("rerun-request-names-a-running-execution")
                    if rec_["rejected"]:
                        if common.jd(drv.c.serialize()) != before_:
                            raise Violation("rejected-rerun-changed-state", dict(info, history=common.history_summary(r)))
                    else:
                        r.outcomes = {}
                        a_ = [running_now[0][0], running_now[0][1], None]
                        if a_ in drv.inflight:
                            s_, r_ = r.outcome(a_)
                            r.step({"op": "done", "a": a_, "status": s_, "result": r_})
                        r.finish(stop=lambda rr_: bool(flow.late_arrivals))
                        return
            parallel_left = flow.has_due() or bool(flow.open)
            n_disp_before = collections.Counter((t, rt_, i) for t, rt_, i in drv.dispatched)
            # last reported status of every item of the failed with-items executions
            ok_items_before = set(ok_items)
            item_last = {}
            for (t, rt_, i, s_) in drv.completed:
                if i is not None and (t, rt_) in {tuple(x) for x in failed}:
                    item_last[(t, rt_, i)] = s_
            rec = r.step({"op": "rerun", "tasks": tasks})
            if rec["rejected"] and not failed:
                # nothing failed (unreachable join, fail command ...): there is nothing to re-execute and
                # rejecting the request is the lawful way of not leaving the workflow without work
                labels.add("nothing-to-rerun-rejected")
                break
            if rec["rejected"]:
                raise Violation("rerun-of-completed-workflow-rejected", dict(info, reject=rec.get("reject_msg"), history=common.history_summary(r)[-20:]))
            rounds += 1
            if drv.status() != "resuming":
                raise Violation("status-not-resuming-after-rerun", dict(info, status=drv.status()))
            for t, rt in failed:
                base = (scn["outcomes"] or {}).get(t) or [["succeeded", 200]]
                # only some items failed on their own: the others keep the result of the first run, so the
                # task's own row (which the clean run uses for every item) has to stay what it was
                row = [list(base[0])] if base[0][0] == "succeeded" else [["succeeded", 200]]
                final_outcomes[t] = row
                r.outcomes[t] = [list(row[0])]
                for key in [k_ for k_ in list(r.outcomes) if k_.startswith(t + "#")]:
                    r.outcomes.pop(key)
                    final_outcomes.pop(key, None)
            failed_tasks = {t for t, _ in failed}
            # the model has to learn that these executions are due again: re-arm them
            for t, rt in failed:
                flow.due[(t, None if flow.split.get(t) else rt)] += 1
                if ir["tasks"][t].get("with"):
                    flow.rerun_items.add((t, rt))
            flow.must_fail = False
            # drive to rest; quiescence predicate after every step
            def quiesce_check(d, rec_):
                if not d.inflight and not d.dormant and d.status() in ("resuming", "running"):
                    probe = d.next_tasks()
                    if not probe:
                        raise Violation("stuck-after-accepted-rerun", dict(info, status=d.status(), history=common.history_summary(r)[-25:]))

            drv.observers.append(quiesce_check)
            quiesce_check(drv, None)
            try:
                if busy and scn["early"] % 2 == 0:
                    # actions that were still in flight report before the provider polls again, i.e. while
                    # the workflow is still resuming and the re-executed tasks have not started
                    for a in [list(x) for x in drv.inflight][: 1 + scn["early"] % 3]:
                        s_, r_ = r.outcome(a)
                        r.step({"op": "done", "a": a, "status": s_, "result": r_})
                        labels.add("report-while-resuming")
                r.finish(stop=lambda rr_: bool(flow.late_arrivals))
            finally:
                drv.observers.remove(quiesce_check)
            if flow.late_arrivals:
                stats.excluded["R1"] += 1
                return
            # count re-executed attempts: every dispatch of a failed task/item beyond the first run
            # (in the busy variant a round can end - the workflow fails again - before a task selected by the
            # rerun was offered: it is still owed its re-execution in the next round)
            owed.update((t, rt_) for t, rt_ in failed)
            failed_execs = set(owed)
            if tasks is None and late_failed - {(t, rt_) for t, rt_ in failed}:
                # a *handled* failure that was reported after the workflow had stopped is flagged terminal
                # by the engine and re-executed by a default rerun together with its successors; whether
                # that is "a failed terminal task" is not settled by the statement: not compared (counted)
                skip_twin = True
                labels.add("late-handled-failure-rerun")
            late_failed.clear()
            # (an explicitly requested execution that had succeeded - the "descendant" that in fact ran on
            # another branch - is re-executed because it was asked for: discounted like the failed ones)
            asked = failed_execs | {(x[0], x[1]) for x in (tasks or [])}
            extra_asked = {(x[0], x[1]) for x in (tasks or [])} - failed_execs
            if any((t, rt_) in extra_asked and c > n_disp_before.get((t, rt_, i), 0) for (t, rt_, i), c in collections.Counter((t, rt_, i) for t, rt_, i in drv.dispatched).items()):
                # a succeeded execution was re-executed on request: whatever follows from it runs again too,
                # which the clean run does not show - the executed multisets are not compared then
                skip_executed = True
                labels.add("succeeded-execution-rerun-on-request")
            for (t, rt_, i), c in collections.Counter((t, rt_, i) for t, rt_, i in drv.dispatched).items():
                if (t, rt_) in asked and n_disp_before.get((t, rt_, i), 0) > 0 and c > n_disp_before[(t, rt_, i)]:
                    reran[(t, i)] += c - n_disp_before[(t, rt_, i)]
            # with-items: without reset_items only the items that had not succeeded run again, with it all do
            disp_now = collections.Counter((t, rt_, i) for t, rt_, i in drv.dispatched)
            if variant == "reset":
                reset_owed.update(failed_execs)
            # (a rerun with reset_items that was accepted in an earlier round has reset the items even if the
            # workflow failed again - busy variant - before the task was offered)
            reset = variant == "reset"
            for key in sorted(k_ for k_ in ok_items_before if (k_[0], k_[1]) in failed_execs):
                again = disp_now[key] - n_disp_before.get(key, 0)
                if not reset and (key[0], key[1]) not in reset_owed and again:
                    raise Violation("succeeded-item-repeated-by-rerun-without-reset", dict(info, item=list(key), times=again, history=common.history_summary(r)[-30:]))
                labels.add("items-kept-by-rerun")
            if not late_any and item_last:
                for key, s_ in sorted(item_last.items()):
                    again = disp_now[key] - n_disp_before.get(key, 0)
                    if not reset and (key[0], key[1]) not in reset_owed and s_ == "succeeded" and again:
                        raise Violation("succeeded-item-repeated-by-rerun-without-reset", dict(info, item=list(key), times=again, history=common.history_summary(r)[-30:]))
                    if reset and not again and drv.status() == "succeeded":
                        raise Violation("item-not-repeated-by-rerun-with-reset", dict(info, item=list(key), history=common.history_summary(r)[-30:]))
                    if s_ != "succeeded" and not again and drv.status() == "succeeded":
                        raise Violation("failed-item-not-repeated-by-rerun", dict(info, item=list(key), history=common.history_summary(r)[-30:]))
                labels.add("items-rerun-reset" if reset else "items-rerun-no-reset")
            if parallel_left:
                labels.add("parallel-work-left")
            if any(i is not None for (t, i) in reran):
                labels.add("with-items-rerun")
        if rounds and drv.status() == "succeeded" and flow.unhandled and not flow.late_arrivals:
            # a task failure that no transition handles was reported after the rerun had been accepted
            raise Violation("succeeded-with-unhandled-failure-after-rerun", dict(info, unhandled=[list(x) for x in flow.unhandled], history=common.history_summary(r)[-30:]))
    except provider.KnownTrigger as kt:
        stats.excluded[kt.fid] += 1
        return
    except provider.Anomaly as a:
        raise Violation("anomaly", dict(info, what=str(a)))
    except provider.EngineException as e:
        raise Violation("engine-raised", dict(info, error=str(e), history=common.history_summary(r)[-25:]))
    status = drv.status()
    stats.label("status:" + status, "rounds:%d" % rounds)
    for lab in labels:
        stats.label(lab)
    if late_any:
        # completions that arrive after the workflow stopped are flagged terminal by the engine, which
        # changes what a default rerun selects; the twin comparison is made on runs without them
        stats.label("late-completions-no-twin")
    if rounds == 0 or skip_twin or late_any:
        return
    # ---- twin: clean run with the final outcome table
    twin = provider.Driver(defn, {}, item_task_running=drv.item_task_running, lifecycle=drv.lifecycle)
    rt_ = sched.Run(twin, dict(scn, outcomes=final_outcomes, choices=[], controls=[]), {"tok": "task"})
    # a second clean run under the opposite completion order: output variables on which the clean runs
    # themselves disagree are order dependent (C08 / known finding R3) and say nothing about the rerun
    twin2 = provider.Driver(defn, {}, item_task_running=drv.item_task_running, lifecycle=drv.lifecycle)
    rt2 = sched.Run(twin2, dict(scn, outcomes={k_: [list(x) for x in v] for k_, v in final_outcomes.items()}, choices=[251] * 80, controls=[]), {"tok": "task", "eager_poll": 1})
    try:
        rt_.run()
        rt2.run()
    except (provider.EngineException, provider.KnownTrigger, provider.Anomaly):
        return
    hist = common.history_summary(r)
    if twin.status() != status and rounds < 4:
        raise Violation("status-differs-from-clean-run", dict(info, rerun_status=status, clean_status=twin.status(), rounds=rounds, history=hist[-40:], events=sorted(flow.events)))
    if status == "succeeded" and twin.status() == "succeeded":
        a = executed(drv)
        for key, c in reran.items():
            a[key] -= c
        b = executed(twin)
        if +a != +b and not skip_executed:
            raise Violation("executed-differs-from-clean-run", dict(info, rerun_run=sorted((+a).items()), clean_run=sorted((+b).items()), discounted=sorted(reran.items()), history=hist[-40:]))
        drv.apply({"op": "output"})
        twin.apply({"op": "output"})
        oa, ob = drv.c.get_workflow_output() or {}, twin.c.get_workflow_output() or {}
        ob2 = {}
        if twin2.status() == "succeeded":
            twin2.apply({"op": "output"})
            ob2 = twin2.c.get_workflow_output() or {}
        pubs = collections.Counter()
        for c in twin.c.serialize()["state"]["contexts"][1:]:
            for kx in c:
                pubs[kx] += 1
        for name in set(oa) | set(ob):
            var = name[:-4] if name.endswith("_out") else name
            if common.jd(ob.get(name)) != common.jd(ob2.get(name)):
                stats.label("order-dependent-output-skipped")
                continue
            if pubs[var] <= 1 and common.jd(oa.get(name)) != common.jd(ob.get(name)):
                raise Violation("output-differs-from-clean-run", dict(info, variable=var, rerun_run=oa.get(name), clean_run=ob.get(name), history=hist[-40:]))
    if rounds >= 2:
        labels.add("rounds>=2")
    for lab in labels:
        stats.label(lab)
    if labels & {"parallel-work-left", "with-items-rerun", "rounds>=2", "task-plus-descendant"}:
        stats.mark_nontrivial(scn)
        stats.sample({"definition": defn, "outcomes": scn["outcomes"], "history": hist[:60], "rounds": rounds})


CFG = gen.cfg(acyclic=True, p_loop=0.0, items=0.2, retry=0.0, max_tasks=7, pub_ctx=False, items_conc=False)


def strategy(tier):
    base = gen.scenario(CFG, flags={}, p_fail=0.3, max_choices=40, fixed_outcomes=True, abend=True)

    def build(s, v, e, b, item_fail):
        # some items of a with-items task fail on their own (the others succeed in time): a rerun without
        # reset_items has to leave the succeeded ones alone
        oc = dict(s["outcomes"])
        k = 0
        for name in sorted(s["ir"]["tasks"]):
            w = s["ir"]["tasks"][name].get("with")
            if not w:
                continue
            n = len(w["items"]["e"][1]) if isinstance(w["items"], dict) and w["items"]["e"][0] == "lit" else 0
            for i in range(n):
                f = item_fail[k % len(item_fail)]
                k += 1
                if f:
                    oc["%s#%d" % (name, i)] = [[["failed", "timeout", "abandoned"][f - 1], 500]]
        return dict(s, outcomes=oc, variant=v, early=e, bogus=b, busy=int(b in (1, 4, 7)))

    return st.builds(
        build,
        base,
        st.sampled_from(["default", "default", "explicit", "reset", "descendant"]),
        st.integers(0, 40),
        st.integers(0, 9),
        st.lists(st.sampled_from([0, 0, 0, 0, 1, 1, 2, 3]), min_size=1, max_size=8),
    )


# ----------------------------------------------------------------------------- rerun inside a loop


def run_cycle(scn, stats):
    """A counter loop fails in a later iteration; several tasks of the cycle are requested explicitly."""
    from vf.lang import E

    lng = scn["lang"]
    klen, bound, fail_at, fail_task = scn["klen"], scn["bound"], scn["fail_at"], scn["fail_task"] % scn["klen"]
    body = ["l%d" % i for i in range(klen)]
    tasks = {"t0": {"action": "core.act", "next": [{"when": E(["true"], lng), "do": [body[0]], "publish": []}]}, "t9": {"action": "core.act", "next": []}}
    for i, b in enumerate(body):
        t = {"action": "core.act", "next": []}
        if i < klen - 1:
            t["next"].append({"when": E(["succeeded"], lng), "do": [body[i + 1]], "publish": []})
        else:
            t["next"].append({"when": E(["and", ["succeeded"], ["ctx_lt", "n", bound]], lng), "do": [body[0]], "publish": [["n", E(["ctx_plus", "n", 1], lng)]]})
            t["next"].append({"when": E(["and", ["succeeded"], ["ctx_ge", "n", bound]], lng), "do": ["t9"], "publish": []})
        tasks[b] = t
    ir = {"vars": [["n", 0]], "tasks": tasks}
    s2 = dict(scn, ir=ir, choices=[], outcomes={}, controls=[])
    defn, drv = common.build(s2, stats)
    info = {"definition": defn, "fail_task": body[fail_task], "fail_at": fail_at}
    count = collections.Counter()
    state = {"fail": True}

    def outcome(a):
        count[a[0]] += 1
        if state["fail"] and a[0] == body[fail_task] and count[a[0]] == fail_at:
            return "failed", {"tok": a[0], "code": 500}
        return "succeeded", {"tok": a[0], "code": 200}

    def drive():
        n = 0
        while n < 100:
            n += 1
            rec = drv.apply({"op": "poll"})
            if not drv.inflight:
                if not rec["offers"]:
                    break
                continue
            a = drv.inflight[0]
            st_, res = outcome(a)
            drv.apply({"op": "done", "a": list(a), "status": st_, "result": res})

    try:
        drv.start()
        drive()
        if drv.status() != "failed":
            return  # the failing visit was never reached (fail_at beyond the number of iterations)
        executed_before = collections.Counter(t for t, r, i in drv.dispatched)
        req = [[b, 0, False] for b in body if executed_before[b]]
        if scn["only_failed"]:
            req = [[body[fail_task], 0, False]]
        state["fail"] = False
        rec = drv.apply({"op": "rerun", "tasks": req})
        if rec["rejected"] and len(req) > 1:
            # the engine collapses requests that lie in each other's sequence, which in a cycle can drop all of
            # them; the statement says when a request may be accepted, not that it must be: counted, not alarmed
            stats.label("cycle-rerun-rejected")
            stats.mark_nontrivial(scn)
            return
        if rec["rejected"]:
            raise Violation("rerun-of-the-failed-execution-rejected", dict(info, requested=req, reject=rec.get("reject_msg"), history=common.history_summary(_R(drv))))
        if drv.status() != "resuming":
            raise Violation("status-not-resuming-after-rerun", dict(info, status=drv.status()))
        probe = drv.next_tasks()
        if not probe:
            raise Violation("stuck-after-accepted-rerun", dict(info, requested=req, status=drv.status(), history=common.history_summary(_R(drv))))
        drive()
    except provider.EngineException as e:
        raise Violation("engine-raised", dict(info, error=str(e), history=common.history_summary(_R(drv))))
    except (provider.KnownTrigger, provider.Anomaly) as e:
        raise Violation("anomaly", dict(info, error=repr(e)))
    if drv.status() != "succeeded":
        raise Violation("loop-did-not-converge-after-rerun", dict(info, status=drv.status(), errors=drv.c.errors, history=common.history_summary(_R(drv))))
    total = collections.Counter(t for t, r, i in drv.dispatched)
    if total["t9"] != 1:
        raise Violation("exit-task-not-executed-once", dict(info, executed=dict(total), history=common.history_summary(_R(drv))))
    stats.label("cycle-rerun", "requests:%d" % len(req))
    stats.mark_nontrivial(scn)
    stats.sample({"definition": defn["tasks"], "requested": req, "history": common.history_summary(_R(drv))[:40]})


class _R(object):
    def __init__(self, d):
        self.d = d


def strat_cycle(tier):
    return st.fixed_dictionaries({
        "lang": st.sampled_from(["yaql", "jinja"]),
        "klen": st.integers(1, 3),
        "bound": st.integers(1, 3),
        "fail_at": st.integers(1, 4),
        "fail_task": st.integers(0, 2),
        "only_failed": st.booleans(),
        "style": st.integers(0, 3),
    })


PARTS = [
    Part("rerun", run, strategy, {"quick": 1400, "thorough": 14000}, rule=RULE),
    Part("cycle", run_cycle, strat_cycle, {"quick": 400, "thorough": 4000}, rule="a counter loop that fails in some iteration; explicit rerun of several tasks of the cycle; must be accepted, resume, converge"),
]
