"""C10 - cancellation stops scheduling and ends in canceled.

One cancel request at a generated position of the history (from running, pausing, paused,
resuming; as CANCELING or CANCELED); the actions in flight then report arbitrary outcomes
(succeeded, failed, timeout, abandoned, canceled).  From the accepted request on:
  * no poll ever returns a task or an item;
  * the status is `canceling` while the harness ledger has an action in flight and `canceled` at the
    call that empties it (immediately when it is empty);
  * the final status is canceled - never succeeded, and not failed merely because the cancellation
    kept remaining tasks or joins from running (no expression can fail in these definitions);
  * render_workflow_output() keeps `canceled`, records no error, and every output variable is a
    value that was published for it (or its initial value) - "renders its output from what was published".
"""
from vf import gen, lang, refsem
from vf.props import common
from vf.runner import Part, Violation

RULE = (
    "random definitions (joins all/N downstream, retry, with-items windows, loops, handlers) x outcome tables incl. "
    "canceled reports x schedules with exactly one cancel request at a generated position, optionally preceded by "
    "pause/resume; non-trivial = cancel accepted with >=1 action in flight AND (a partially satisfied join, or a "
    "with-items task with items not yet offered, or a task waiting for retry) at that moment; distinct by hash"
)
ASSUMPTIONS = [
    "no expression of the generated definitions can fail at run time (C11 owns 'fails or stays canceled')",
    "an action the provider reported pending/paused is dormant, not in flight",
]


class Cancel(object):
    def __init__(self, flow, ir):
        self.flow = flow
        self.ir = ir
        self.requested = False
        self.by_action = False
        self.inflight_at = None
        self.live_at = set()
        self.published = {}  # var -> set of json values seen published (model side, from the IR)

    def __call__(self, drv, rec):
        op = rec["op"]
        s = rec["after"]
        hist = lambda: common.history_summary(_R(drv))[-30:]  # noqa
        if op["op"] == "req" and op["status"] in ("canceling", "canceled") and rec["rejected"] and rec["before"] in ("running", "pausing", "paused", "resuming"):
            # the statement quantifies over cancel requested from running, pausing, paused, resuming: a rejected
            # request would leave the workflow running on
            raise Violation("cancel-request-rejected", {"from": rec["before"], "reason": rec.get("reject_msg"), "definition": drv.defn, "history": hist()})
        if op["op"] == "req" and op["status"] in ("canceling", "canceled") and not rec["rejected"] and not self.requested:
            self.requested = True
            self.inflight_at = len(drv.inflight)
            if self.flow.partial_joins():
                self.live_at.add("partial-join")
            if any(e.get("retry_pending") for e in self.flow.open.values()):
                self.live_at.add("retry-pending")
            for k, e in self.flow.open.items():
                if "items_n" in e and len(e["items_offered"]) < (e["items_n"] or 0):
                    self.live_at.add("items-not-offered")
            if self.flow.has_due():
                self.live_at.add("due-work")
        if self.flow.canceled_action and not self.requested:
            # an action that reports `canceled` before any request cancels the workflow by itself; the
            # property speaks of cancellation that is *requested*: such runs are not assessed
            self.by_action = True
        if not self.requested or self.by_action:
            return
        if rec["offers"]:
            raise Violation("offer-after-cancel", {"offers": [(o["id"], o["route"], o["items"]) for o in rec["offers"]], "definition": drv.defn, "history": hist()})
        if drv.inflight and s != "canceling":
            raise Violation("not-canceling-with-action-in-flight", {"status": s, "inflight": drv.inflight, "definition": drv.defn, "history": hist()})
        if not drv.inflight and s != "canceled":
            raise Violation("not-canceled-when-nothing-in-flight", {"status": s, "op": op, "definition": drv.defn, "history": hist()})


class _R(object):
    def __init__(self, d):
        self.d = d


def candidates(ir, drv):
    """var -> list of values that were published for it in this run (model side) + initial value."""
    cand = {v: [val] for v, val in ir.get("vars") or []}
    results = {}
    for st_ in drv.steps:
        op = st_["op"]
        if op["op"] == "done":
            results.setdefault(op["a"][0], []).append(op.get("result"))
    for name, t in ir["tasks"].items():
        for tr in t.get("next") or []:
            for var, val in tr.get("publish") or []:
                c = cand.setdefault(var, [])
                if not lang.is_expr(val):
                    c.append(val)
                elif val["e"][0] == "res_key":
                    c.extend((r or {}).get(val["e"][1]) for r in results.get(name, []) if isinstance(r, dict))
                elif val["e"][0] == "res":
                    c.append("<any>")
                elif val["e"][0] == "ctx":
                    c.append(("copy", val["e"][1]))
                elif val["e"][0] == "ctx_plus":
                    c.append("<any>")
    # resolve copies transitively (a copy can carry any candidate of the source variable)
    for _ in range(4):
        for var, c in cand.items():
            for x in list(c):
                if isinstance(x, tuple):
                    c.extend(y for y in cand.get(x[1], []) if y not in c)
    return {v: [x for x in c if not isinstance(x, tuple)] for v, c in cand.items()}


def run(scn, stats):
    fo = refsem.FlowObserver(scn["ir"])
    cz = Cancel(fo.flow, scn["ir"])

    def stop(r):
        return bool(fo.flow.late_arrivals) and not cz.requested

    defn, r = common.run(scn, stats, observers=[fo, cz], stop=stop)
    if fo.flow.late_arrivals and not cz.requested:
        stats.excluded["R1"] += 1
        return
    d = r.d
    stats.label("status:" + d.status())
    if cz.by_action:
        stats.label("canceled-by-action-report")
        return
    if r.engine_exception is not None or r.truncated or not cz.requested:
        stats.label("no-cancel-reached" if not cz.requested else "aborted")
        return
    if d.status() != "canceled":
        raise Violation("final-status-not-canceled", {"status": d.status(), "definition": defn, "history": common.history_summary(r)[-30:]})
    n_err = len(d.c.errors)
    r.step({"op": "output"})
    if d.status() != "canceled":
        raise Violation("output-rendering-changed-canceled", {"status": d.status(), "definition": defn})
    if len(d.c.errors) != n_err:
        raise Violation("output-rendering-failed-on-canceled", {"errors": d.c.errors[n_err:], "definition": defn, "history": common.history_summary(r)[-30:]})
    out = d.c.get_workflow_output() or {}
    cand = candidates(scn["ir"], d)
    for name, expr in scn["ir"].get("output") or []:
        var = expr["e"][1]
        if name not in out:
            raise Violation("output-variable-missing", {"name": name, "output": out, "definition": defn})
        cs = cand.get(var, [])
        if "<any>" not in cs and not any(common.jd(out[name]) == common.jd(c) for c in cs):
            raise Violation("output-value-never-published", {"name": name, "value": out[name], "published": cs, "definition": defn, "history": common.history_summary(r)[-30:]})
    r.step({"op": "poll"})
    labels = ["cancel-with-%s-in-flight" % ("some" if cz.inflight_at else "nothing")] + sorted(cz.live_at)
    for lab in labels:
        stats.label(lab)
    if cz.inflight_at and (cz.live_at & {"partial-join", "items-not-offered", "retry-pending"}):
        stats.mark_nontrivial(scn)
        stats.sample({"definition": defn, "outcomes": scn["outcomes"], "history": common.history_summary(r, 50)})


CFG = gen.cfg(items=0.2, retry=0.2, retry_cmd=True, p_loop=0.2, p_join=0.7)
FLAGS = {"pending": 1, "interim": 1}  # in-flight actions may report `canceling` before they report `canceled`
CONTROLS = {"pause": 1, "resume": 1}


def _strategy(base):
    from hypothesis import strategies as st

    def add(s, pos, kind, canceled_outcome):
        s = dict(s)
        s["controls"] = sorted(s["controls"] + [[pos, kind]])
        if canceled_outcome:
            oc = dict(s["outcomes"])
            names = sorted(s["ir"]["tasks"])
            t = names[canceled_outcome % len(names)]
            oc[t] = (oc.get(t) or [["succeeded", 200]]) + [["canceled", 500]]
            s["outcomes"] = oc
        return s

    return st.builds(add, base, st.integers(1, 14), st.sampled_from(["cancel", "cancel", "cancel2", "pause+cancel", "pause2+cancel", "pause+resume+cancel", "pause+resume+cancel2"]), st.sampled_from([0, 0, 0, 1, 2, 3]))


def strategy(tier):
    return _strategy(gen.scenario(CFG, flags=FLAGS, max_choices=60, controls=CONTROLS))


def strat_items(tier):
    return _strategy(gen.directed_scenario(gen.items_siblings_ir(), flags=FLAGS, controls=CONTROLS, max_choices=60))


PARTS = [
    Part("cancel", run, strategy, {"quick": 2400, "thorough": 24000}, rule=RULE),
    Part("items-siblings", run, strat_items, {"quick": 1000, "thorough": 10000}, rule="directed: concurrency-limited with-items tasks beside plain tasks, cancel placed anywhere (also right after pause / resume)"),
]
