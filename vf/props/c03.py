"""C03 - no stuck workflow: quiescence implies a resting status.

At every point of a history where the harness ledger has nothing in flight AND a probe
get_next_tasks() returns nothing, the workflow status must be succeeded, failed, canceled or paused -
paused only following a pause request or a pending/paused (dormant) action.  Checked after every API
call, which is equivalent to: running / resuming / pausing / canceling always has an action in
flight or a task on offer.  The probe is a pure query (C19), so it does not perturb the run.
Liveness is decided as safety at points the harness itself creates (it owns the schedule).
"""
from vf import gen, provider, refsem
from vf.props import common
from vf.runner import Part, Violation

RULE = (
    "random definitions with all features (with-items incl. failing items and concurrency, retry policy/command, joins "
    "all/N, loops, commands) x outcome tables x schedules with pause/resume/cancel placed anywhere, pending reports, and a "
    "rerun of the failed tasks at rest; non-trivial = quiescent points reached in >= 3 different (status, last-op-kind) "
    "classes, or a quiescent point right after a failed with-items task / a retry decision / a join that can no longer "
    "be satisfied / a resume; distinct by hash of definition+outcomes+schedule"
)
ASSUMPTIONS = [
    "resume is requested only when no action is dormant (a provider resumes an inquiry by completing it)",
    "rerun only at full rest, only after an unhandled task failure (rerun after a fail command or with nothing to rerun is known finding R10/R11 owned by C17)",
]

RESTING = ("succeeded", "failed", "canceled", "paused")


class Quiescence(object):
    def __init__(self, flow):
        self.flow = flow
        self.classes = set()
        self.special = set()
        self.pause_seen = False
        self.dormant_seen = False

    def __call__(self, drv, rec):
        op = rec["op"]
        s = rec["after"]
        if op["op"] == "req" and op["status"] in ("pausing", "paused") and not rec["rejected"]:
            self.pause_seen = True
        if op["op"] == "req" and not rec["rejected"] and getattr(drv, "unstarted", None):
            # the request landed between an offer and the first report of the offered action
            self.special.add("request-before-first-report")
        if op["op"] in ("req", "rerun") and not rec["rejected"] and (op["op"] == "rerun" or op["status"] in ("resuming", "running")):
            # an accepted resume (or rerun) uses the pause request up: being paused afterwards needs a new one
            self.pause_seen = False
            self.dormant_seen = bool(drv.dormant)
        if drv.dormant:
            self.dormant_seen = True
        if drv.inflight:
            return
        probe = drv.next_tasks()
        if probe:
            return
        kind = op["op"] if op["op"] != "req" else "req:" + op["status"]
        self.classes.add((s, kind))
        if op["op"] == "req" and op["status"] in ("resuming", "running") and not rec["rejected"]:
            self.special.add("after-resume")
        if op["op"] == "done" and op["a"][2] is not None and op["status"] != "succeeded":
            self.special.add("after-failed-item")
        if self.flow.retried:
            self.special.add("with-retry")
        if self.flow.partial_joins():
            self.special.add("with-partial-join")
        if s not in RESTING:
            raise Violation(
                "stuck-in-" + s,
                {"op": op, "definition": drv.defn, "history": common.history_summary(_R(drv))[-30:], "dormant": drv.dormant},
            )
        if s == "paused" and not (self.pause_seen or self.dormant_seen):
            raise Violation("paused-without-request", {"op": op, "definition": drv.defn, "history": common.history_summary(_R(drv))[-30:]})


class _R(object):
    def __init__(self, d):
        self.d = d


def run(scn, stats):
    fo = refsem.FlowObserver(scn["ir"])
    q = Quiescence(fo.flow)

    # Known finding R1 makes the engine offer a join that is already running; from then on the provider holds two
    # actions for one execution of the join and what the stale one's report does is a consequence of R1 (owned by
    # C07): the run is checked up to that offer and abandoned (a late arrival alone does not end it).
    dw = common.DupWatch()
    stop = lambda rr: dw.dup  # noqa
    defn, r = common.run(scn, stats, observers=[fo, dw, q], stop=stop, post_poll=True)
    flow = fo.flow
    if dw.dup:
        stats.excluded["R1"] += 1
        return
    if scn.get("rerun") and r.engine_exception is None and not r.truncated and r.at_rest() and r.d.status() == "failed":
        if flow.unhandled and not flow.fail_cmd and not flow.runtime_error:
            try:
                rec = r.step({"op": "rerun", "tasks": None})
                r.outcomes = {}
                if not rec["rejected"]:
                    q.special.add("after-rerun")
                    r.finish(stop=stop)
            except Violation as v:
                raise common.enrich(v, [fo])
            except provider.KnownTrigger as k:
                stats.excluded[k.fid] += 1
            except provider.EngineException as e:
                stats.engine_exception(e, scn)
    stats.label("status:" + r.d.status())
    for sp in q.special:
        stats.label(sp)
    if len(q.classes) >= 3 or q.special:
        stats.mark_nontrivial(scn)
        stats.sample({"definition": defn, "outcomes": scn["outcomes"], "history": common.history_summary(r, 40), "quiescent_classes": sorted(map(list, q.classes))})


CFG = gen.cfg(items=0.2, retry=0.2, retry_cmd=True, p_loop=0.3)
FLAGS = {"pause": 1, "pending": 1}
CONTROLS = {"pause": 2, "pause2": 1, "resume": 2, "cancel": 1, "pause+resume": 1, "pause+resume+cancel": 1}


def strategy(tier):
    from hypothesis import strategies as st

    base = gen.scenario(CFG, flags=FLAGS, max_choices=60, controls=CONTROLS, canceled=True)
    # (a quarter of the runs with lazy first reports, see strat_items)
    return st.builds(lambda s, rr, lz: dict(s, rerun=rr, flags=dict(s["flags"], lazy=1, eager_poll=0) if lz == 0 else s["flags"]), base, st.booleans(), st.integers(0, 3))


def strat_directed(tier):
    from hypothesis import strategies as st

    base = gen.directed_scenario(gen.fork_join_ir(items=True, retry=True), controls={"pause": 1, "resume": 1}, max_choices=60)
    return st.builds(lambda s, rr: dict(s, rerun=rr), base, st.booleans())


def strat_items(tier):
    from hypothesis import strategies as st

    base = gen.directed_scenario(gen.items_siblings_ir(), flags=FLAGS, controls=CONTROLS, max_choices=60, canceled=True)
    # in a third of the runs the first status report of a dispatched action is made late (any time before
    # the provider polls again), so that requests and other reports land between an offer and that report
    def build(s, rr, lz, pos, kind):
        if lz:
            return dict(s, rerun=rr)
        # an early request: right after the first poll only some of the offered actions have reported
        ctl = sorted(s["controls"] + ([[pos, kind]] if kind else []))
        return dict(s, rerun=rr, controls=ctl, flags=dict(s["flags"], lazy=1, eager_poll=0))

    return st.builds(build, base, st.booleans(), st.integers(0, 2), st.integers(2, 5), st.sampled_from(["pause", "pause", "cancel", None]))


PARTS = [
    Part("quiescence", run, strategy, {"quick": 2000, "thorough": 20000}, rule=RULE),
    Part("fork-join", run, strat_directed, {"quick": 1000, "thorough": 10000}, rule="directed fork-join (join all / N, late and missing arrivals) under arbitrary schedules"),
    Part("items-siblings", run, strat_items, {"quick": 1200, "thorough": 12000}, rule="directed: concurrency-limited with-items tasks beside plain tasks that report pending / canceled / failed, with control requests"),
]
