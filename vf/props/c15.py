"""C15 - accepted definitions are executable; broken references are reported.

Part `soundness`: every definition that inspection accepts, from the generator with all features on,
is composed and conducted under generated legal histories (any schedule, pause / resume / cancel,
pending reports, persist/restore, rerun of failed tasks, output rendering).  No conductor API call
may raise: compose, get_next_tasks, update_task_state, request_workflow_status (other than the
documented rejection of a forbidden request), render_workflow_output, serialize / deserialize.

Part `mutants` (completeness): one fault is planted into an accepted definition - a reachable transition
target renamed to an undefined task; a task renamed to an engine command; all start tasks given an
inbound transition (no entry point); the grammar of one expression broken (both languages, every
position incl. retry); a reference, in each of the seven documented forms, to a variable that nothing
upstream assigns (never assigned / assigned only downstream / only on a sibling branch) at every
expression position.  inspect() must report an entry of the right category whose spec_path points at
the planted site - never raise, never accept silently.
"""
import copy

from hypothesis import strategies as st

from orquesta.specs import native as native_specs

from vf import gen, lang, provider, refsem, sched
from vf.props import common
from vf.runner import Part, Reject, Violation

RULE = (
    "soundness: random accepted definitions with all features x schedules with every control request, restore, rerun; "
    "non-trivial = a history with >= 2 of {with-items, retry, join, loop, rerun, pause, cancel} interacting. mutants: "
    "fault class x position x reference form planted into generated accepted definitions; every mutant is non-trivial; "
    "cells recorded in extra; distinct by hash"
)
ASSUMPTIONS = [
    "a status request answered with InvalidWorkflowStatusTransition / InvalidEvent is a rejection, not an internal error",
    "rerun after a fail command offers the engine command as a task (known finding R11 owned by C17): the run is abandoned there and counted",
]

FORMS = [
    ("yaql", "<% ctx(VAR) %>"), ("yaql", "<% ctx('VAR') %>"), ("yaql", '<% ctx("VAR") %>'), ("yaql", "<% ctx().VAR %>"),
    ("jinja", "{{ ctx('VAR') }}"), ("jinja", '{{ ctx("VAR") }}'), ("jinja", "{{ ctx().VAR }}"),
]
BROKEN = [
    "<% ctx(x) + %>", "{{ ctx('x') + }}", "<% 1 +* 2 %>", "{{ 1 +* }}", "<% ctx(x %>", "{{ ctx('x' }}",
    # breakages that use only identifier characters, dots, quotes, brackets and parentheses
    "<% ctx(x). %>", "<% ctx().x. %>", "<% ctx().x[0 %>", "<% ctx().x[0]) %>", "<% ctx('x).y %>", "<% ctx().x..y %>", "<% ctx(x).y( %>",
    "<% ctx(\"x).y %>", "<% ctx(x)) %>", "<% ctx().x] %>",
    "{{ ctx('x'). }}", "{{ ctx().x[0 }}", "{{ ctx().x..y }}", "{{ ctx('x).y }}", "{{ ctx().x) }}", "{{ ctx().x[ }}",
]
TASK_POS = ["input", "action", "delay", "items", "concurrency", "retry-when", "retry-count", "retry-delay", "when", "publish"]
WF_POS = ["wf-input", "vars", "output"]


def plant(defn, tname, pos, text):
    """Put expression `text` at position `pos` of task `tname`; return the expected spec_path (prefix)."""
    t = defn["tasks"][tname] if tname else None
    if pos == "input":
        t.setdefault("input", {})["planted"] = text
        return "tasks.%s.input" % tname
    if pos == "action":
        t["action"] = text
        return "tasks.%s.action" % tname
    if pos == "delay":
        t["delay"] = text
        return "tasks.%s.delay" % tname
    if pos == "items":
        t["with"] = {"items": text}
        t.setdefault("action", "core.act")
        return "tasks.%s.with.items" % tname
    if pos == "concurrency":
        w = t.get("with") if isinstance(t.get("with"), dict) else {"items": "<% list(1, 2) %>"}
        w["concurrency"] = text
        t["with"] = w
        t.setdefault("action", "core.act")
        return "tasks.%s.with.concurrency" % tname
    if pos.startswith("retry-"):
        r = t.get("retry") or {"count": 1}
        r[pos[6:]] = text
        t["retry"] = r
        return "tasks.%s.retry.%s" % (tname, pos[6:])
    if pos in ("when", "publish"):
        nxt = t.setdefault("next", [])
        if not nxt:
            nxt.append({"do": ["noop"]})
        if pos == "when":
            nxt[0]["when"] = text
            return "tasks.%s.next[0].when" % tname
        pubs = nxt[0].get("publish") or []
        nxt[0]["publish"] = list(pubs) + [{"planted": text}]
        return "tasks.%s.next[0].publish[%d]" % (tname, len(pubs))
    if pos == "wf-input":
        defn["input"] = list(defn.get("input") or []) + [{"planted": text}]
        return "input[%d]" % (len(defn["input"]) - 1)
    if pos == "vars":
        defn["vars"] = list(defn.get("vars") or []) + [{"planted": text}]
        return "vars[%d]" % (len(defn["vars"]) - 1)
    if pos == "output":
        defn["output"] = list(defn.get("output") or []) + [{"planted": text}]
        return "output[%d]" % (len(defn["output"]) - 1)
    raise ValueError(pos)


def run_mutant(scn, stats):
    ir = scn["ir"]
    defn = lang.to_defn(ir)
    try:
        if native_specs.WorkflowSpec(copy.deepcopy(defn)).inspect():
            raise Reject()
    except Reject:
        raise
    except Exception as e:  # noqa
        raise Violation("inspect-raised", {"error": repr(e), "definition": defn})
    fault = scn["fault"]
    names = sorted(defn["tasks"])
    rch = lang.reach(ir)
    roots = lang.roots(ir)
    reachable = set(roots)
    for r in roots:
        reachable |= rch[r]
    reachable = sorted(n for n in reachable if n in defn["tasks"])
    pick = lambda seq, k: seq[k % len(seq)]  # noqa
    tname = pick(reachable, scn["a"])
    want = {}
    if fault == "undefined-target":
        cands = [(n, i) for n in reachable for i, tr in enumerate(defn["tasks"][n].get("next") or []) if [x for x in (tr.get("do") or []) if x in defn["tasks"]]]
        if not cands:
            raise Reject()
        n, i = pick(cands, scn["a"])
        do = defn["tasks"][n]["next"][i]["do"]
        j = [k for k, x in enumerate(do) if x in defn["tasks"]][scn["b"] % len([x for x in do if x in defn["tasks"]])]
        do[j] = "ghost_task"
        want = {"category": "semantics", "needle": "ghost_task", "path": "tasks.%s.next[%d].do" % (n, i)}
    elif fault == "reserved-name":
        used = {x for t in defn["tasks"].values() for tr in (t.get("next") or []) for x in (tr.get("do") or [])}
        free = [c for c in ("noop", "fail", "continue", "retry") if c not in used]
        if not free:
            raise Reject()
        cmd = pick(free, scn["b"])
        old = tname
        defn["tasks"] = {(cmd if k == old else k): v for k, v in defn["tasks"].items()}
        for t in defn["tasks"].values():
            for tr in t.get("next") or []:
                if tr.get("do"):
                    tr["do"] = [cmd if x == old else x for x in tr["do"]]
        want = {"category": "semantics", "needle": "reserved", "path": "tasks.%s" % cmd}
    elif fault == "no-start-task":
        src = pick(names, scn["a"])
        defn["tasks"][src].setdefault("next", []).append({"do": list(roots)})
        want = {"category": "semantics", "needle": "start the workflow", "path": "tasks"}
    elif fault == "broken-expression":
        pos = pick(TASK_POS + WF_POS, scn["b"])
        text = pick(BROKEN, scn["c"])
        path = plant(defn, tname if pos in TASK_POS else None, pos, text)
        want = {"category": "expressions", "needle": "", "path": path}
    else:  # unassigned variable
        lng, form = pick(FORMS, scn["c"])
        klass = fault.split(":")[1]
        if klass == "never":
            pos = pick(TASK_POS + WF_POS, scn["b"])
            path = plant(defn, tname if pos in TASK_POS else None, pos, form.replace("VAR", "ghost_var"))
            var = "ghost_var"
        elif klass == "downstream":
            pos = pick([p for p in TASK_POS if p not in ("publish",)], scn["b"])
            path = plant(defn, tname, pos, form.replace("VAR", "late_var"))
            nxt = defn["tasks"][tname].setdefault("next", [])
            if not nxt:
                nxt.append({"do": ["noop"]})
            nxt[-1]["publish"] = list(nxt[-1].get("publish") or []) + [{"late_var": 1}]
            var = "late_var"
        elif klass == "self":
            # the reference sits inside the very one-key item that assigns the same name
            pos = pick(["publish", "vars", "output", "wf-input"], scn["b"])
            text = form.replace("VAR", "selfref")
            if pos == "publish":
                nxt = defn["tasks"][tname].setdefault("next", [])
                if not nxt:
                    nxt.append({"do": ["noop"]})
                pubs = nxt[0].get("publish") or []
                nxt[0]["publish"] = list(pubs) + [{"selfref": text}]
                path = "tasks.%s.next[0].publish[%d]" % (tname, len(pubs))
            else:
                key = {"vars": "vars", "output": "output", "wf-input": "input"}[pos]
                defn[key] = list(defn.get(key) or []) + [{"selfref": text}]
                path = "%s[%d]" % (key, len(defn[key]) - 1)
            var = "selfref"
        else:  # sibling branch
            pos = pick(TASK_POS, scn["b"])
            defn["tasks"]["za"] = {"action": "core.act", "next": [{"do": ["zb1", "zb2"]}]}
            defn["tasks"]["zb1"] = {"action": "core.act", "next": [{"publish": [{"sib_var": 1}], "do": ["zc"]}]}
            defn["tasks"]["zc"] = {"action": "core.act"}
            defn["tasks"]["zb2"] = {"action": "core.act"}
            path = plant(defn, "zb2", pos, form.replace("VAR", "sib_var"))
            var = "sib_var"
        want = {"category": "context", "needle": '"%s"' % var, "path": path}
    info = {"fault": fault, "want": want, "definition": defn}
    try:
        rep = native_specs.WorkflowSpec(copy.deepcopy(defn)).inspect()
    except Exception as e:  # noqa
        raise Violation("inspect-raised-on-mutant", dict(info, error=repr(e)))
    if not rep:
        raise Violation("mutant-accepted-silently", info)
    entries = rep.get(want["category"]) or []
    import re

    base = re.sub(r"\[\d+\]$", "", want["path"])  # expression entries name the list, context entries the item
    hit = [e for e in entries if want["needle"] in e.get("message", "") and ((e.get("spec_path") or "").startswith(want["path"]) or (e.get("spec_path") or "") == base)]
    if not hit:
        raise Violation("fault-not-reported-at-its-site", dict(info, report=rep))
    stats.label("fault:" + fault)
    stats.extra["cell:%s:%s" % (fault, want["path"].split(".")[-1].split("[")[0] if fault not in ("undefined-target", "reserved-name", "no-start-task") else "-")] += 1
    stats.mark_nontrivial(scn)
    if len(stats.samples) < 3:
        stats.sample({"fault": fault, "want": want, "report": rep})


FAULTS = ["undefined-target", "reserved-name", "no-start-task", "broken-expression", "broken-expression", "unassigned:never", "unassigned:never", "unassigned:downstream", "unassigned:sibling", "unassigned:self"]


def strat_mutant(tier):
    return st.fixed_dictionaries({
        "ir": gen.wf_ir(gen.cfg(p_loop=0.2, items=0.1, retry=0.1, max_tasks=6)),
        "fault": st.sampled_from(FAULTS),
        "a": st.integers(0, 60),
        "b": st.integers(0, 60),
        "c": st.integers(0, 60),
    })


def run_sound(scn, stats):
    fo = refsem.FlowObserver(scn["ir"])
    feats = set()
    defn, drv = common.build(scn, stats)
    drv.observers.append(fo)
    dw = common.DupWatch()
    drv.observers.append(dw)
    r = sched.Run(drv, scn)
    # known finding R1 (owned by C07) makes the engine offer a join twice; the provider then holds two actions
    # for one execution record and what happens to the stale one is a consequence of R1: abandon the run there
    stop = lambda rr: dw.dup or bool(fo.flow.late_arrivals)  # noqa
    try:
        r.run(stop=stop)
        if dw.dup or fo.flow.late_arrivals:
            stats.excluded["R1"] += 1
            return
        if scn.get("rerun") and r.at_rest() and drv.status() == "failed" and fo.flow.unhandled and not fo.flow.fail_cmd:
            tasks = None if scn["rerun"] == 1 else [[t, rt, bool(scn["rerun"] == 3)] for t, rt in fo.flow.unhandled[:2]]
            r.step({"op": "rerun", "tasks": tasks})
            feats.add("rerun")
            r.outcomes = {}
            r.finish(stop=stop)
            if dw.dup or fo.flow.late_arrivals:
                stats.excluded["R1"] += 1
                return
        if drv.status() in provider.TERMINAL:
            r.step({"op": "output"})
            r.step({"op": "poll"})
            r.step({"op": "restore"})
    except provider.KnownTrigger as k:
        stats.excluded[k.fid] += 1
    except provider.Anomaly as a:
        raise Violation("anomaly", {"what": str(a), "definition": defn, "history": common.history_summary(r)})
    except provider.EngineException as e:
        raise Violation("engine-raised-internal-error", {"error": str(e), "call": e.call, "site": e.site, "definition": defn, "history": common.history_summary(r)[-40:], "events": sorted(fo.flow.events)})
    ir = scn["ir"]
    if any(t.get("with") for t in ir["tasks"].values()):
        feats.add("items")
    if fo.flow.retried:
        feats.add("retry")
    if "join-fired" in fo.flow.events or fo.flow.partial_joins():
        feats.add("join")
    if ir.get("loop") and any(fo.flow.executed.get(b, 0) > 1 for b in ir["loop"]["body"]):
        feats.add("loop")
    if r.pause_requested or any(s["op"].get("status") in ("pausing", "paused") for s in drv.steps if s["op"]["op"] == "req"):
        feats.add("pause")
    if r.cancel_requested:
        feats.add("cancel")
    stats.label("status:" + drv.status())
    for f in feats:
        stats.label("feature:" + f)
    if len(feats) >= 2:
        stats.mark_nontrivial(scn)
        stats.sample({"definition": defn, "history": common.history_summary(r, 40), "features": sorted(feats)})


CFG = gen.cfg(items=0.25, retry=0.25, retry_cmd=True, retry_expr=True, p_loop=0.3, delay=0.1, ctx_conds=False)
CONTROLS = {"pause": 1, "pause2": 1, "resume": 2, "cancel": 1, "restore": 2}


def strat_sound(tier):
    base = gen.scenario(CFG, flags={"pending": 1, "badreq": 1}, max_choices=60, controls=CONTROLS)
    # a quarter of the histories with lazy first reports (DESIGN 2.3): the first status of a dispatched action
    # may arrive after its task has completed through a sibling item, or has been staged again for a retry
    return st.builds(lambda s, rr, lz: dict(s, rerun=rr, flags=dict(s["flags"], lazy=1, eager_poll=0) if lz == 0 else s["flags"]), base, st.sampled_from([0, 1, 2, 3]), st.integers(0, 3))


PARTS = [
    Part("soundness", run_sound, strat_sound, {"quick": 2000, "thorough": 20000}, rule=RULE),
    Part("mutants", run_mutant, strat_mutant, {"quick": 2400, "thorough": 24000}, rule="single-fault mutants of accepted definitions"),
]
