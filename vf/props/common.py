"""Helpers shared by the property modules."""
import copy
import json

from orquesta.specs import native as native_specs

from vf import lang, provider, sched
from vf.runner import Reject, Violation


def build(scn, stats=None, need_clean=True):
    """IR -> definition -> Driver.  Rejects definitions that inspection does not accept."""
    defn = scn.get("defn") or lang.to_defn(scn["ir"])
    try:
        spec = native_specs.WorkflowSpec(copy.deepcopy(defn))
        insp = spec.inspect()
    except Exception as e:  # noqa
        raise Violation("inspect-raised", {"error": repr(e), "defn": defn})
    if need_clean and insp:
        raise Reject()
    style = scn.get("style", 0)
    drv = provider.Driver(defn, scn.get("inputs") or {}, item_task_running=bool(style & 1), lifecycle=(style >> 1) & 1, spec=spec, lazy=bool((scn.get("flags") or {}).get("lazy")))
    return defn, drv


def jd(x):
    return json.dumps(x, sort_keys=True, default=str)


class DupWatch(object):
    """Notices the moment the engine offers an action that is already in flight (known finding R1 makes it
    offer a join twice): from then on the harness would hold two actions for one execution record."""

    def __init__(self):
        self.dup = False

    def __call__(self, drv, rec):
        for o in rec["offers"]:
            for it in o["items"] or [None]:
                if drv.inflight.count([o["id"], o["route"], it]) > 1:
                    self.dup = True


def enrich(v, observers, defn=None):
    """Attach the model-detected trigger facts to a violation (known-finding matchers read them)."""
    if isinstance(v.detail, dict):
        for ob in observers:
            fl = getattr(ob, "flow", None)
            if fl is not None:
                v.detail.setdefault("events", sorted(fl.events))
    return v


def run(scn, stats, flags=None, observers=(), stop=None, count_exc=True, post_poll=False):
    """Build and run a scenario.  Returns (defn, Run).  Engine exceptions are counted and end the run
    (they are violations of C15/C11, whose checks own them)."""
    defn, drv = build(scn, stats)
    for ob in observers:
        drv.observers.append(ob)
    r = sched.Run(drv, scn, flags)
    r.truncated = None
    try:
        r.run(stop=stop)
        if post_poll and r.d.status() in provider.TERMINAL:
            # a provider may well poll once more after the workflow came to rest
            r.step({"op": "poll"})
            if r.d.inflight:
                r.finish(stop)
    except Violation as v:
        raise enrich(v, observers)
    except provider.KnownTrigger as k:
        if stats is not None:
            stats.excluded[k.fid] += 1
        r.engine_exception = None
        r.truncated = k.fid
        return defn, r
    except provider.Anomaly as a:
        raise Violation("anomaly", {"what": str(a), "definition": defn, "history": history_summary(r)})
    except provider.EngineException as e:
        if not count_exc:
            raise
        if stats is not None:
            stats.engine_exception(e, scn)
        r.engine_exception = e
        return defn, r
    r.engine_exception = None
    return defn, r


def history_summary(r, limit=80):
    out = []
    for s in r.d.steps[:limit]:
        op = s["op"]
        if op["op"] == "poll":
            out.append("poll->%s [%s]" % ([(o["id"], o["route"], o["items"]) for o in s["offers"]], s["after"]))
        elif op["op"] == "done":
            out.append("done %s %s [%s]" % (op["a"], op["status"], s["after"]))
        elif op["op"] == "req":
            out.append("req %s%s [%s]" % (op["status"], " REJECTED" if s["rejected"] else "", s["after"]))
        elif op["op"] in ("begin", "report"):
            out.append("%s %s %s[%s]" % (op["op"], op["a"], (op.get("status") or "") and op["status"] + " ", s["after"]))
        else:
            out.append("%s [%s]" % (op["op"], s["after"]))
    return out
