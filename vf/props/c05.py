"""C05 - persisting and restoring the conductor at any point is unobservable.

Lock-step differential.  Conductor A is never persisted.  Conductor B receives exactly the same
API calls but, at a generated subset of the points between calls, is replaced by
deserialize(json.loads(json.dumps(serialize(B)))) - what a provider does after a crash.
After every call: A.serialize() == B.serialize() (spec, graph, state, errors, log, output, input),
equal offers (ids, routes, rendered actions, delay, visible context) and equal rejections; and at
every restore point serialize(deserialize(s)) == s.
"""
import json

from hypothesis import strategies as st

from orquesta import conducting

from vf import gen, provider, sched
from vf.props import common
from vf.runner import Part, Violation

RULE = (
    "random definitions (all features) x outcome tables x choice-list schedules with pause/resume/cancel/"
    "rerun, x a generated subset of the points between API calls at which twin B is persisted and restored; "
    "non-trivial = >= 2 restore points, at least one while a with-items task, a retrying task or a partially "
    "satisfied join is live, and >= 3 calls after the last restore; distinct by hash of definition+schedule+points"
)
ASSUMPTIONS = ["persistence = json.dumps/loads of conductor.serialize(), as st2 stores it"]


def offers_view(rec):
    return [(o["id"], o["route"], o["items"], common.jd(o["actions"]), o["delay"], common.jd(o["ctx"])) for o in rec["offers"]]


class Twin(object):
    def __init__(self, defn, drvA, scn):
        self.a = drvA
        self.b = provider.Driver(defn, scn.get("inputs") or {}, item_task_running=drvA.item_task_running, lifecycle=drvA.lifecycle)
        self.points = set(scn.get("restore_points") or [])
        self.n = 0
        self.restores = 0
        if 0 in self.points:
            # persisted before anything else was called: the first API call on a fresh conductor is serialize()
            s0 = json.loads(json.dumps(self.b.c.serialize()))
            self.b.c = conducting.WorkflowConductor.deserialize(s0)
            self.restores += 1
        self.live_restore = False
        self.calls_after_last = 0

    def __call__(self, drv, rec):
        op = rec["op"]
        self.n += 1
        if self.n in self.points:
            s = json.loads(json.dumps(self.b.c.serialize()))
            try:
                c2 = conducting.WorkflowConductor.deserialize(json.loads(json.dumps(s)))
                s2 = json.loads(json.dumps(c2.serialize()))
            except Exception as e:  # noqa
                raise Violation("restore-raised", {"error": repr(e), "at_call": self.n})
            if common.jd(s) != common.jd(s2):
                raise Violation("persist-of-restored-differs", {"at_call": self.n, "diff": diff(s, s2)})
            self.b.c = c2
            self.restores += 1
            self.calls_after_last = 0
            st_ = s["state"]
            if any("items" in x or not x["ready"] or "retry" in x for x in st_["staged"]) or any(
                x.get("status") == "retrying" for x in st_["sequence"]
            ):
                self.live_restore = True
        self.calls_after_last += 1
        try:
            if op["op"] == "start":
                recb = self.b.start()
            else:
                recb = self.b.apply(op)
        except provider.EngineException as e:
            raise Violation("restored-twin-raised", {"error": str(e), "op": op, "at_call": self.n})
        if rec["rejected"] != recb["rejected"] or rec["after"] != recb["after"]:
            raise Violation("twin-status-differs", {"op": op, "A": [rec["after"], rec["rejected"]], "B": [recb["after"], recb["rejected"]]})
        if offers_view(rec) != offers_view(recb):
            raise Violation("twin-offers-differ", {"op": op, "A": offers_view(rec), "B": offers_view(recb)})
        sa, sb = self.a.c.serialize(), self.b.c.serialize()
        if common.jd(sa) != common.jd(sb):
            raise Violation("twin-state-differs", {"op": op, "at_call": self.n, "diff": diff(sa, sb)})


def diff(a, b, path=""):
    out = []
    if isinstance(a, dict) and isinstance(b, dict):
        for k in sorted(set(a) | set(b)):
            if a.get(k) != b.get(k):
                out.extend(diff(a.get(k), b.get(k), path + "." + str(k)))
    elif isinstance(a, list) and isinstance(b, list) and len(a) == len(b):
        for i, (x, y) in enumerate(zip(a, b)):
            if x != y:
                out.extend(diff(x, y, path + "[%d]" % i))
    else:
        out.append({"path": path, "A": a, "B": b})
    return out[:6]


def run(scn, stats):
    defn, drv = common.build(scn, stats)
    tw = Twin(defn, drv, scn)
    drv.observers.append(tw)
    r = sched.Run(drv, scn)
    try:
        r.run()
        if scn.get("rerun") and r.at_rest() and drv.status() == "failed":
            if scn["rerun"] == 2:
                r.step({"op": "output"})  # a provider renders the output of the failed run first
            r.step({"op": "rerun", "tasks": None})
            r.outcomes = {}
            if drv.status() == "resuming":
                r.finish()
        r.step({"op": "output"})
    except provider.KnownTrigger as k:
        stats.excluded[k.fid] += 1
    except provider.Anomaly as a:
        raise Violation("anomaly", {"what": str(a)})
    except provider.EngineException as e:
        stats.engine_exception(e, scn)
    stats.label("status:" + drv.status(), "restores:%d" % min(tw.restores, 3))
    if tw.live_restore:
        stats.label("restore-with-live-items/retry/join")
    if tw.restores >= 2 and (tw.live_restore or 0 in tw.points) and tw.calls_after_last >= 2:
        stats.mark_nontrivial(scn)
        stats.sample({"definition": defn, "restore_points": sorted(tw.points), "history": common.history_summary(r, 40)})


CFG = gen.cfg(items=0.2, retry=0.2, p_loop=0.3, retry_cmd=True, bad_vars=0.08, dict_vals=True)
FLAGS = {"pause": 1, "cancel": 1, "pending": 1}


def strategy(tier):
    base = gen.scenario(CFG, flags=FLAGS, p_fail=0.15, max_choices=50)
    return st.builds(
        lambda s, pts, rr: dict(s, restore_points=sorted(pts), rerun=rr),
        base,
        st.one_of(st.sets(st.integers(0, 40), min_size=1, max_size=12), st.just(set(range(0, 80))), st.just(set(range(1, 80, 2)))),
        st.sampled_from([0, 1, 2, 2]),
    )


PARTS = [Part("lockstep", run, strategy, {"quick": 1600, "thorough": 16000}, rule=RULE)]
