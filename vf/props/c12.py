"""C12 - with-items: every item once, in order, within the concurrency limit.

A with-items task `w` over n generated items (scalars, dicts, two zipped lists with named keys) with
concurrency absent / a literal / an expression (including values <= 0), next to a sibling task, is
driven under arbitrary interleavings of polls and item reports with generated item outcomes and
optional pause / resume / cancel requests.  The harness keeps an item ledger and checks:
  * each item is offered at most once per task execution, ids strictly increasing, and each offered
    action carries exactly that item's value (by key for zipped / named forms);
  * offered-or-running items never exceed k (k <= 0 means 1; absent means all);
  * when nothing fails and no pause/cancel intervenes, all n items are offered and the task succeeds;
  * no item is offered once a pause or cancel has been requested (until resumed) nor after the task
    completed; the task never completes while an offered item is still in flight;
  * the task succeeds iff all items succeeded, and the result it publishes lists the item results
    in item order; n = 0 completes at once with an empty result.
"""
from hypothesis import strategies as st

from vf import lang, provider, sched
from vf.lang import E
from vf.props import common
from vf.runner import Part, Violation

RULE = (
    "n in 0..6 items x value shapes (scalar, dict, zipped pair) x concurrency (absent, literal 1..4, expression "
    "evaluating to -1..5) x item outcome vectors x interleavings of polls and item reports x pause/resume/cancel "
    "placements x dispatch styles; non-trivial = n >= 3 with k < n and item reports out of dispatch order; distinct by hash"
)
ASSUMPTIONS = [
    "the provider reports each dispatched item running before anything else happens (dispatch is atomic with the poll, as st2 does under the execution lock)",
    "task completion is observed through the persisted record status of `w` (serialize()), the published result through the context of the successor",
]

ABENDED = ("failed", "timeout", "abandoned")


def ref(var, lng, form):
    return lang.render(E(["ctx", var], lng, form))


def to_defn(scn):
    lng, form, shape = scn["lang"], scn["form"], scn["shape"]
    y = lng == "yaql"
    w = {"action": "core.act"}
    if shape == "bare":
        w["with"] = {"items": ref("xs", lng, form)}
        w["input"] = {"it": "<% item() %>" if y else "{{ item() }}"}
    elif shape == "named":
        w["with"] = {"items": "i in " + ref("xs", lng, form)}
        w["input"] = {"it": "<% item(i) %>" if y else "{{ item('i') }}"}
    else:
        w["with"] = {"items": "a, b in " + ("<% zip(ctx(xs), ctx(ys)) %>" if y else "{{ zip(ctx('xs'), ctx('ys')) }}")}
        w["input"] = {"it": "<% item(a) %>" if y else "{{ item('a') }}", "it2": "<% item(b) %>" if y else "{{ item('b') }}"}
    conc = scn["conc"]
    if conc[0] == "lit":
        w["with"]["concurrency"] = conc[1]
    elif conc[0] == "expr":
        w["with"]["concurrency"] = ref("k", lng, form)
    if scn.get("with_str") and "concurrency" not in w["with"]:
        w["with"] = w["with"]["items"]  # documented string form of with
    res = "<% result() %>" if y else "{{ result() }}"
    w["next"] = [
        {"when": "<% succeeded() %>" if y else "{{ succeeded() }}", "publish": [{"res": res}], "do": ["after"]},
        {"when": "<% failed() %>" if y else "{{ failed() }}", "publish": [{"res": res}], "do": ["onfail"]},
    ]
    got = {"got": ref("res", lng, form)}
    if scn.get("joined"):
        # two start tasks both transition into `w` (join: 1): the second arrival may land while items are
        # in flight, between two batches, or after the task completed
        w["join"] = 1
        return {
            "input": ["xs", {"ys": []}, {"k": 1}],
            "vars": [{"res": None}],
            "tasks": {
                "p1": {"action": "core.act", "input": {"who": "p1"}, "next": [{"do": ["w"]}]},
                "p2": {"action": "core.act", "input": {"who": "p2"}, "next": [{"do": ["w"]}]},
                "w": w,
                "after": {"action": "core.act", "input": dict(got)},
                "onfail": {"action": "core.act", "input": dict(got)},
            },
            "output": [{"res": ref("res", lng, form)}],
        }
    return {
        "input": ["xs", {"ys": []}, {"k": 1}],
        "vars": [{"res": None}],
        "tasks": {
            "s": {"action": "core.act", "input": {"who": "s"}},
            "w": w,
            "after": {"action": "core.act", "input": dict(got)},
            "onfail": {"action": "core.act", "input": dict(got)},
        },
        "output": [{"res": ref("res", lng, form)}],
    }


class Items(object):
    def __init__(self, scn, n, k_eff, values):
        self.n, self.k, self.values = n, k_eff, values
        self.offered = []
        self.inflight = set()
        self.done = {}
        self.hold = False  # pause or cancel requested and not resumed
        self.canceled = False
        self.ever_hold = False
        self.task_done_at = None
        self.ooo = False
        self.scn = scn

    def __call__(self, drv, rec):
        op = rec["op"]
        if self.scn.get("joined") and self.task_done_at is not None and op["op"] == "done" and op["a"][0] in ("p1", "p2"):
            self.late_arrival = True  # R1: an arrival after the join: 1 task completed stages it again
        if getattr(self, "late_arrival", False):
            return
        info = lambda: {"definition": drv.defn, "inputs": drv.inputs, "history": common.history_summary(_R(drv))[-30:], "n": self.n, "k": self.k}  # noqa
        if op["op"] == "req" and not rec["rejected"]:
            if op["status"] in ("pausing", "paused"):
                self.hold = self.ever_hold = True
            elif op["status"] in ("canceling", "canceled"):
                self.hold = self.ever_hold = self.canceled = True
            elif op["status"] in ("resuming", "running") and not self.canceled:
                self.hold = False
        for o in rec["offers"]:
            if o["id"] != "w":
                continue
            ids = o["items"]
            if self.hold:
                raise Violation("item-offered-after-pause-or-cancel", dict(info(), items=ids))
            if self.task_done_at is not None:
                raise Violation("item-offered-after-task-completed", dict(info(), items=ids))
            for i, act in zip(ids, o["actions"]):
                if i in self.offered:
                    raise Violation("item-offered-twice", dict(info(), item=i))
                if self.offered and i <= max(self.offered):
                    raise Violation("items-offered-out-of-order", dict(info(), item=i, before=self.offered))
                if i >= self.n:
                    raise Violation("item-beyond-list", dict(info(), item=i))
                want = self.values[i]
                got = act["input"]
                exp = {"it": want} if self.scn["shape"] != "zipped" else {"it": want[0], "it2": want[1]}
                if common.jd(got) != common.jd(exp):
                    raise Violation("item-action-carries-wrong-value", dict(info(), item=i, got=got, want=exp))
                self.offered.append(i)
                self.inflight.add(i)
            if self.k is not None and len(self.inflight) > self.k:
                raise Violation("concurrency-window-exceeded", dict(info(), in_flight=sorted(self.inflight), limit=self.k))
            if o["items_count"] != self.n:
                raise Violation("items-count-wrong", dict(info(), items_count=o["items_count"]))
        if op["op"] == "done" and op["a"][0] == "w" and op["a"][2] != "empty":
            i = op["a"][2]
            if self.inflight and i != min(self.inflight):
                self.ooo = True
            self.inflight.discard(i)
            self.done[i] = op["status"]
        # task completion as persisted
        ent = None
        for e in drv.c.serialize()["state"]["sequence"]:
            if e["id"] == "w":
                ent = e
        if ent is not None and ent.get("status") in ("succeeded", "failed", "canceled") and self.task_done_at is None:
            self.task_done_at = len(drv.steps)
            if self.inflight:
                raise Violation("task-completed-with-item-in-flight", dict(info(), in_flight=sorted(self.inflight), task_status=ent.get("status")))
            all_ok = len(self.done) == self.n and all(s == "succeeded" for s in self.done.values())
            if (ent["status"] == "succeeded") != all_ok:
                raise Violation("task-status-not-iff-all-items-succeeded", dict(info(), task_status=ent["status"], items=self.done))
        for o in rec["offers"]:
            if o["id"] in ("after", "onfail"):
                if self.inflight:
                    raise Violation("successor-offered-with-item-in-flight", dict(info(), in_flight=sorted(self.inflight)))
                want = [({"tok": "w#%d" % i} if i in self.done else None) for i in range(max(self.done) + 1)] if self.done else []
                got = o["actions"][0]["input"].get("got")
                if common.jd(got) != common.jd(want):
                    raise Violation("published-result-not-in-item-order", dict(info(), got=got, want=want))


class _R(object):
    def __init__(self, d):
        self.d = d


def run(scn, stats):
    defn = to_defn(scn)
    xs = scn["xs"]
    n = len(xs)
    ys = list(range(100, 100 + n))
    values = xs if scn["shape"] != "zipped" else [[x, y] for x, y in zip(xs, ys)]
    inputs = {"xs": xs, "ys": ys, "k": scn["conc"][1] if scn["conc"][0] == "expr" else 1}
    conc = scn["conc"]
    k_eff = None if conc[0] == "none" else max(1, conc[1])
    s2 = dict(scn, defn=defn, inputs=inputs, ir=None)
    try:
        from orquesta.specs import native as native_specs
        import copy

        spec = native_specs.WorkflowSpec(copy.deepcopy(defn))
        insp = spec.inspect()
    except Exception as e:  # noqa
        raise Violation("definition-raised", {"error": repr(e), "definition": defn})
    if insp:
        raise Violation("with-items-definition-rejected", {"inspect": insp, "definition": defn})
    style = scn.get("style", 0)
    drv = provider.Driver(defn, inputs, item_task_running=bool(style & 1), lifecycle=(style >> 1) & 1, spec=spec)
    ob = Items(scn, n, k_eff, values)
    drv.observers.append(ob)
    # outcome table: per item
    oc = {}
    for i, s in enumerate(scn["outcomes"][:n]):
        oc["w#%d" % i] = [[s, 200 if s == "succeeded" else 500]]
    r = sched.Run(drv, dict(scn, outcomes=oc, ir={"tasks": {}}), {"tok": "task"})
    # result tokens: "w[i]" style from sched (tok=task) -> normalise expectation
    orig_outcome = r.outcome

    def outcome(a):
        s, res = orig_outcome(a)
        if a[0] == "w" and a[2] not in (None, "empty"):
            res = {"tok": "w#%d" % a[2]}
        return s, res

    r.outcome = outcome
    try:
        r.run()
        if drv.status() in provider.TERMINAL:
            r.step({"op": "poll"})
    except provider.EngineException as e:
        raise Violation("engine-raised", {"error": str(e), "definition": defn, "inputs": inputs, "history": common.history_summary(r)[-30:]})
    except (provider.KnownTrigger, provider.Anomaly) as e:
        raise Violation("anomaly", {"error": repr(e), "definition": defn})
    if getattr(ob, "late_arrival", False):
        stats.excluded["R1"] += 1
        return
    clean = all(s == "succeeded" for s in scn["outcomes"][:n]) and not ob.ever_hold and not r.cancel_requested
    info = {"definition": defn, "inputs": inputs, "history": common.history_summary(r)[-40:], "n": n, "k": k_eff}
    if clean:
        if sorted(ob.offered) != list(range(n)):
            raise Violation("not-all-items-offered", dict(info, offered=ob.offered))
        if drv.status() != "succeeded":
            raise Violation("clean-run-not-succeeded", dict(info, status=drv.status(), errors=drv.c.errors))
        drv.apply({"op": "output"})
        out = (drv.c.get_workflow_output() or {}).get("res")
        want = [{"tok": "w#%d" % i} for i in range(n)]
        if common.jd(out) != common.jd(want):
            raise Violation("result-not-item-results-in-order", dict(info, got=out, want=want))
    if n == 0:
        ent = [e for e in drv.c.serialize()["state"]["sequence"] if e["id"] == "w"]
        if not ob.ever_hold and (not ent or ent[-1].get("status") != "succeeded"):
            raise Violation("empty-list-did-not-complete", dict(info, record=ent))
    stats.label("n:%d" % min(n, 4), "conc:" + conc[0], "status:" + drv.status(), "shape:" + scn["shape"])
    if ob.ever_hold:
        stats.label("pause-or-cancel")
    if n >= 3 and k_eff is not None and k_eff < n and ob.ooo:
        stats.mark_nontrivial(scn)
        stats.sample({"definition": defn["tasks"]["w"], "inputs": inputs, "history": common.history_summary(r)[:40]})


def strategy(tier):
    val = st.one_of(st.integers(-3, 9), st.sampled_from(["a", "b", ""]), st.fixed_dictionaries({"h": st.integers(0, 3)}), st.none(), st.booleans())
    return st.fixed_dictionaries({
        "lang": st.sampled_from(["yaql", "jinja"]),
        "form": st.integers(0, 3),
        "shape": st.sampled_from(["bare", "named", "zipped"]),
        "xs": st.sampled_from([0, 1, 2, 3, 3, 4, 4, 5, 6]).flatmap(lambda n: st.lists(val, min_size=n, max_size=n)),
        "conc": st.one_of(st.just(["none", 0]), st.tuples(st.just("lit"), st.integers(1, 4)).map(list), st.tuples(st.just("expr"), st.sampled_from([-1, 0, 1, 2, 3, 5])).map(list)),
        "outcomes": st.lists(st.sampled_from(["succeeded"] * 5 + ["failed", "timeout", "abandoned", "canceled"]), min_size=6, max_size=6),
        "choices": st.lists(st.integers(0, 255), min_size=4, max_size=40),
        "controls": st.lists(st.tuples(st.integers(1, 12), st.sampled_from(["pause", "pause2", "resume", "cancel"])).map(list), max_size=2).map(sorted),
        "style": st.integers(0, 3),
        "with_str": st.booleans(),
        "joined": st.sampled_from([False, False, True]),
        "flags": st.sampled_from([{}, {}, {"interim": 1}]),
    })


PARTS = [Part("items", run, strategy, {"quick": 3000, "thorough": 80000}, rule=RULE)]
