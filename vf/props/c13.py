"""C13 - retry: bounded attempts, no transition from a retried attempt.

The engine's decision to retry is read from the persisted record after each completion report and
validated against the reference model:
  * a retry is allowed only if attempts so far <= count (count literal or expression; the retry command
    means count 3) AND the retry condition holds for the latest attempt (default: it failed) AND the
    workflow is still active - so a task runs at most count+1 times per visit;
  * the re-offer carries the configured retry delay (literal or expression; none = 0), the first offer
    carries the task's own delay;
  * the call that decides a retry appends no published context, creates no record for a successor or
    engine command, stages no successor, and does not change the workflow status;
  * the last attempt alone decides transitions: every later offer must be justified by the due-work
    ledger fed with the last attempt's status and result (C01's oracle).
"""
from vf import gen, refsem
from vf.props import common
from vf.runner import Part, Violation

RULE = (
    "random definitions with retry policies on ~half of the tasks (count literal/expression 0..3, when absent / "
    "failed() / result().code != 200 / completed(), delay absent/literal/expression) and the retry command, in "
    "sequences, branches, loops and with-items tasks, x per-attempt outcome sequences x schedules with sibling "
    "branches failing meanwhile and pause/cancel; non-trivial = >= 2 attempts of one visit with a differing last "
    "outcome, or retries exhausted, or a sibling failing while a retry is pending; distinct by hash"
)
ASSUMPTIONS = [
    "the statement bounds retries from above ('at most', 'only while'); a retry the model would allow but the engine does not take is counted (retry_declined), not alarmed",
    "later attempts are started with `running` only (the task state machine defines requested/scheduled for a fresh task only)",
]


class Retry(object):
    def __init__(self, fo, ir):
        self.fo = fo
        self.ir = ir
        self.prev = None
        self.labels = set()
        self.first_status = {}

    def snap(self, drv):
        s = drv.c.serialize()
        return {"n_ctx": len(s["state"]["contexts"]), "n_seq": len(s["state"]["sequence"]), "staged": sorted((x["id"], x["route"]) for x in s["state"]["staged"]), "status": s["state"]["status"]}

    def __call__(self, drv, rec):
        flow = self.fo.flow
        op = rec["op"]
        hist = lambda: common.history_summary(_R(drv))[-30:]  # noqa
        cur = self.snap(drv)
        if flow.problems:
            kind, detail = flow.problems[0]
            raise Violation(kind, {"detail": detail, "definition": drv.defn, "history": hist()})
        for o in rec["offers"]:
            t = self.ir["tasks"].get(o["id"]) or {}
            if o.get("kind") == "retry":
                want = o.get("expected_retry_delay", 0)
                if (o.get("delay") or 0) != (want or 0):
                    raise Violation("retry-offer-with-wrong-delay", {"task": o["id"], "offered_delay": o.get("delay"), "configured": want, "definition": drv.defn, "history": hist()})
            elif o.get("kind") == "new" and t.get("delay") is not None:
                if (o.get("delay") or 0) != (t["delay"] or 0):
                    raise Violation("first-offer-with-wrong-delay", {"task": o["id"], "offered_delay": o.get("delay"), "configured": t["delay"], "definition": drv.defn, "history": hist()})
        if op["op"] == "done" and self.fo.last is not None:
            info = self.fo.last
            a = op["a"]
            if info.get("retried"):
                p = self.prev
                if cur["n_ctx"] != p["n_ctx"]:
                    raise Violation("retried-attempt-published-context", {"task": a[0], "definition": drv.defn, "history": hist()})
                if cur["n_seq"] != p["n_seq"]:
                    raise Violation("retried-attempt-created-records", {"task": a[0], "definition": drv.defn, "history": hist()})
                extra = [x for x in cur["staged"] if x not in p["staged"] and x[0] != a[0]]
                if extra:
                    raise Violation("retried-attempt-staged-successors", {"task": a[0], "staged": extra, "definition": drv.defn, "history": hist()})
                if cur["status"] != p["status"] and not (p["status"] == "pausing" and cur["status"] == "paused") and not (p["status"] == "canceling" and cur["status"] == "canceled"):
                    raise Violation("retried-attempt-changed-workflow-status", {"task": a[0], "from": p["status"], "to": cur["status"], "definition": drv.defn, "history": hist()})
                self.labels.add(">=2-attempts")
                self.first_status.setdefault((a[0], a[1]), op["status"])
                if flow.unhandled:
                    self.labels.add("sibling-failed-while-retrying")
            elif info.get("task_done"):
                if info.get("attempts", 1) >= 2:
                    if self.first_status.get((a[0], a[1])) != op["status"]:
                        self.labels.add("last-outcome-differs")
                    if info.get("retry_count") is not None and info["attempts"] - 1 >= info["retry_count"]:
                        self.labels.add("retries-exhausted")
                self.first_status.pop((a[0], a[1]), None)
        self.prev = cur


class _R(object):
    def __init__(self, d):
        self.d = d


def run(scn, stats):
    fo = refsem.FlowObserver(scn["ir"], observe_retry=True)
    ob = Retry(fo, scn["ir"])

    def stop(r):
        return bool(fo.flow.late_arrivals)

    defn, drv0 = common.build(scn, stats)
    ob.prev = None
    defn, r = common.run(scn, stats, observers=[fo, _Init(ob), ob], stop=stop)
    if fo.flow.late_arrivals:
        stats.excluded["R1"] += 1
    stats.label("status:" + r.d.status())
    stats.extra["retry_declined"] += fo.flow.retry_declined
    for lab in ob.labels:
        stats.label(lab)
    if ob.labels & {"last-outcome-differs", "retries-exhausted", "sibling-failed-while-retrying"}:
        stats.mark_nontrivial(scn)
        stats.sample({"definition": defn, "outcomes": scn["outcomes"], "history": common.history_summary(r, 40)})


class _Init(object):
    """Makes sure the Retry observer has a 'previous' snapshot before the first completion."""

    def __init__(self, ob):
        self.ob = ob

    def __call__(self, drv, rec):
        if self.ob.prev is None:
            self.ob.prev = self.ob.snap(drv)


CFG = gen.cfg(retry=0.5, retry_cmd=True, retry_expr=True, items=0.15, p_loop=0.3, delay=0.2, max_tasks=6)
CONTROLS = {"pause": 1, "resume": 1, "cancel": 1}


def strategy(tier):
    return gen.scenario(CFG, flags={}, p_fail=0.4, max_choices=60, controls=CONTROLS)


PARTS = [Part("retry", run, strategy, {"quick": 2400, "thorough": 24000}, rule=RULE)]
