"""C18 - execution history is append-only; finished records never change.

Temporal invariant over consecutive persisted states (serialize()['state']) of one history:
  * `sequence`, `contexts`, `routes` only grow; the old prefix of `contexts` and `routes` is unchanged;
  * a record's `id`, `route` never change; from the moment a record exists (records are created when
    the task is started) `ctxs.in` and `prev` are frozen;
  * a record is *sealed* when an API call returns with the record in a completed status; from then
    on `status`, `next` and `ctxs.out` are frozen.  (A retried attempt is reopened inside the same
    call, before it returns, so it is never seen sealed.)  `term` may move (rerun resets it).
  * a rerun appends a new record instead of rewriting the old one (with-items reruns excepted:
    the engine documents reuse of the staged entry for items; its `id/route/ctxs.in/prev` stay frozen).
"""
import copy

from hypothesis import strategies as st

from vf import gen, provider, refsem
from vf.props import common
from vf.runner import Part, Violation

RULE = (
    "random definitions (forks, joins, splits, loops, with-items, retry, commands) x outcome tables x "
    "choice-list schedules with pause/resume/cancel/restore; non-trivial = a task id gets a second "
    "arrival (new staged entry or record) while an earlier record of it is running or sealed, or a retry "
    "reopened a record; distinct by hash of definition+schedule"
)
ASSUMPTIONS = [
    "the persisted state is observed through serialize() after every API call",
    "a with-items task that fails keeps its staged entry and, on rerun, reuses its record (documented engine behaviour): only id/route/ctxs.in/prev are required frozen there",
]

COMPLETED = ("succeeded", "failed", "timeout", "abandoned", "canceled")


class Watch(object):
    def __init__(self, items_tasks=()):
        self.prev = None
        self.sealed = {}  # index -> frozen view
        self.events = set()
        self.items_tasks = set(items_tasks)
        self.rerun_open = set()

    def __call__(self, drv, rec):
        cur = drv.c.serialize()["state"]
        prev = self.prev
        self.prev = cur
        if prev is None:
            return
        for key in ("contexts", "routes"):
            if cur[key][: len(prev[key])] != prev[key]:
                raise Violation("%s-not-append-only" % key, {"before": prev[key], "after": cur[key], "op": rec["op"]})
        if len(cur["sequence"]) < len(prev["sequence"]):
            raise Violation("sequence-shrunk", {"op": rec["op"]})
        is_rerun = rec["op"]["op"] == "rerun" and not rec["rejected"]
        for i, (o, n) in enumerate(zip(prev["sequence"], cur["sequence"])):
            for f in ("id", "route"):
                if o[f] != n[f]:
                    raise Violation("record-identity-changed", {"index": i, "before": o, "after": n, "op": rec["op"]})
            if o["ctxs"]["in"] != n["ctxs"]["in"] or o["prev"] != n["prev"]:
                raise Violation("started-record-context-or-prev-changed", {"index": i, "before": o, "after": n, "op": rec["op"]})
            if i in self.sealed:
                if is_rerun and n["id"] in self.items_tasks:
                    # with-items rerun reopens the same record by design
                    self.sealed.pop(i)
                    continue
                frozen = self.sealed[i]
                view = {"status": n.get("status"), "next": n.get("next"), "out": n["ctxs"].get("out")}
                if view != frozen and not (n["id"] in self.items_tasks and i in self.rerun_open):
                    raise Violation("sealed-record-changed", {"index": i, "frozen": frozen, "now": view, "record": n, "op": rec["op"]})
        for i, n in enumerate(cur["sequence"]):
            if n.get("status") in COMPLETED and i not in self.sealed:
                self.sealed[i] = copy.deepcopy({"status": n.get("status"), "next": n.get("next"), "out": n["ctxs"].get("out")})
            if i >= len(prev["sequence"]):
                # a new record of a task id that already had records
                if any(p["id"] == n["id"] for p in prev["sequence"]):
                    self.events.add("second-record")
        if rec["op"]["op"] == "done":
            t = rec["op"]["a"][0]
            for i, n in enumerate(cur["sequence"]):
                if n["id"] == t and n.get("status") in ("retrying",) or (n["id"] == t and (n.get("retry") or {}).get("tally", 0) > 0):
                    self.events.add("retry-reopened")
        # arrival at a task id with a live or sealed record
        staged_ids = {s["id"] for s in cur["staged"]}
        for n in cur["sequence"]:
            if n["id"] in staged_ids and n.get("status"):
                self.events.add("arrival-at-recorded-task")


def run(scn, stats):
    w = Watch(items_tasks=[n for n, t in scn["ir"]["tasks"].items() if t.get("with")])
    fo = refsem.FlowObserver(scn["ir"])
    dw = common.DupWatch()
    stop = lambda rr: dw.dup  # noqa  (R1: the engine offers a join twice; see C15)
    defn, r = common.run(scn, stats, observers=[fo, dw, w], stop=stop)
    if dw.dup:
        stats.excluded["R1"] += 1
    def render():
        # rendering the output reads the recorded contexts: it must leave them as they are
        if r.engine_exception is None and not dw.dup and r.at_rest() and r.d.status() in provider.TERMINAL:
            try:
                r.step({"op": "output"})
                stats.label("output-rendered")
            except provider.EngineException as e:
                stats.engine_exception(e, scn)

    render()
    # a rerun at full rest, then continue (rerun must append)
    if scn.get("rerun") and r.engine_exception is None and not dw.dup and r.at_rest() and r.d.status() == "failed":
        try:
            r.step({"op": "rerun", "tasks": None})
            r.outcomes = {}
            r.finish()
        except provider.KnownTrigger as k:
            stats.excluded[k.fid] += 1
        except provider.EngineException as e:  # engine exceptions are owned by C15
            stats.engine_exception(e, scn)
        render()
    stats.label("status:" + r.d.status())
    for e in w.events:
        stats.label(e)
    if w.events:
        stats.mark_nontrivial(scn, sorted(w.events)[0])
        stats.sample({"definition": defn, "history": common.history_summary(r, 40), "events": sorted(w.events)})


CFG = gen.cfg(items=0.15, retry=0.2, p_loop=0.35, retry_cmd=True, dict_vals=True)
FLAGS = {"pause": 1, "cancel": 1, "restore": 1}
CONTROLS = {"rerun": 1}


def strategy(tier):
    base = gen.scenario(CFG, flags=FLAGS, p_fail=0.2, max_choices=50, controls=CONTROLS)
    return st.builds(lambda s, rr: dict(s, rerun=rr), base, st.booleans())


def strat_directed(tier):
    # joins with a count that retry or iterate, arrivals while the join waits for a retry / runs / has failed,
    # and a rerun requested as soon as the workflow has failed (stale siblings still in flight)
    base = gen.directed_scenario(gen.fork_join_ir(items=True, retry=True), flags={"restore": 0}, controls={"rerun": 1, "pause": 1, "resume": 1}, max_choices=50, p_fail=0.35)
    return st.builds(lambda s, rr: dict(s, rerun=rr), base, st.booleans())


PARTS = [
    Part("walk", run, strategy, {"quick": 1400, "thorough": 14000}, rule=RULE),
    Part("fork-join", run, strat_directed, {"quick": 2400, "thorough": 24000}, rule="directed fork-join definitions whose join retries / iterates, with a rerun placed right after the failure"),
]
