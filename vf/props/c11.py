"""C11 - run-time expression errors are contained, recorded and fail the workflow.

Part `matrix` (exhaustive): every expression-bearing position of the language (15) x every way the
evaluation can fail there while inspection still accepts the definition (missing key / unresolved
attribute, wrong operand type, unknown function, index out of range) x both languages x the point
of the history at which the position is evaluated (plain run; while pausing; while canceling; on a
late completion after the workflow was canceled; on a late completion after it failed).
Part `hosts` (generated): a failing expression planted into a random task of a random definition
(action input, transition condition, publish, retry condition) under a random schedule.

Oracle, for every case:  no conductor API call raises;  after the call that evaluates the planted
expression the error log has an entry naming the planted site - task_id (and task_transition_id for
when / publish), workflow-level entries for input / vars / output;  the status becomes failed, or
remains canceled / goes canceling -> canceled;  no task is offered afterwards.
"""
import copy
import itertools

from hypothesis import strategies as st

from orquesta.specs import native as native_specs

from vf import gen, lang, provider, sched
from vf.props import common
from vf.runner import Part, Reject, Violation

RULE = (
    "matrix: 15 positions x 4 failure kinds x 2 languages x 5 history variants, enumerated completely (cells whose "
    "definition inspection rejects are reported as such, not skipped silently); hosts: random definitions with one "
    "planted failing expression x schedules; non-trivial = the planted expression was actually evaluated; distinct by cell / hash"
)
ASSUMPTIONS = [
    "a rejected RUNNING request on a workflow that already failed while rendering input/vars is a lawful rejection, not an escape",
    "'evaluated' is decided by the harness from the position: the call after which the error entry must exist is fixed per cell",
]

KINDS = {
    "missing-key": {"yaql": "ctx(d).nokey", "jinja": "ctx('d').nokey"},
    "wrong-type": {"yaql": "ctx(s) + 1", "jinja": "ctx('s') + 1"},
    "unknown-function": {"yaql": "nosuchfn(1)", "jinja": "nosuchfn(1)"},
    "index-range": {"yaql": "ctx(l)[5]", "jinja": "ctx('l')[5]"},
    # evaluates fine but to a value of the wrong type for the position (list / integer expected)
    "bad-value-type": {"yaql": "ctx(s)", "jinja": "ctx('s')"},
}
TYPED_POSITIONS = ("items-list", "items-concurrency", "delay", "retry-count", "retry-delay")
POSITIONS = [
    "input-default", "vars", "output", "action", "task-input", "items-list", "items-concurrency", "delay",
    "retry-count", "retry-delay", "retry-when", "transition-when", "publish", "downstream-input", "loop-publish",
]
VARIANTS = ["plain", "pausing", "canceling", "late-after-cancel", "late-after-fail", "late-while-paused"]


def expr(kind, lng):
    body = KINDS[kind][lng]
    return "<% " + body + " %>" if lng == "yaql" else "{{ " + body + " }}"


def build(pos, kind, lng):
    """Definition with the failing expression at `pos`.  Returns (defn, site) where site says which task /
    transition must be named by the error entry and at which event the expression is evaluated."""
    x = expr(kind, lng)
    d = {
        "vars": [{"d": {"k": 1}}, {"s": "str"}, {"l": [1]}, {"n": 0}],
        "tasks": {
            "a": {"action": "core.act", "next": [{"do": ["t1"]}]},
            "sib": {"action": "core.act"},
            "t1": {"action": "core.act", "input": {"p": 1}, "next": [{"when": "<% succeeded() %>", "publish": [{"q": 1}], "do": ["t2"]}]},
            "t2": {"action": "core.act", "input": {"p": 2}},
        },
        "output": [{"o": "<% ctx(n) %>"}],
    }
    t1 = d["tasks"]["t1"]
    site = {"task": "t1", "transition": None, "at": "offer-t1"}
    if pos == "input-default":
        d["input"] = [{"inp": x}]
        site = {"task": None, "transition": None, "at": "init"}
    elif pos == "vars":
        d["vars"].append({"bad": x})
        site = {"task": None, "transition": None, "at": "init"}
    elif pos == "output":
        d["output"].append({"bad": x})
        site = {"task": None, "transition": None, "at": "output"}
    elif pos == "action":
        t1["action"] = x
    elif pos == "task-input":
        t1["input"]["bad"] = x
    elif pos == "items-list":
        t1["with"] = {"items": x}
    elif pos == "items-concurrency":
        t1["with"] = {"items": "<% ctx(l) %>", "concurrency": x}
    elif pos == "delay":
        t1["delay"] = x
    elif pos == "retry-count":
        t1["retry"] = {"count": x}
        site["at"] = "start-t1"
    elif pos == "retry-delay":
        t1["retry"] = {"count": 1, "delay": x}
        site["at"] = "start-t1"
    elif pos == "retry-when":
        t1["retry"] = {"count": 1, "when": x}
        site["at"] = "done-t1"
    elif pos == "transition-when":
        t1["next"][0]["when"] = x
        site = {"task": "t1", "transition": "t2__t0", "at": "done-t1"}
    elif pos == "publish":
        t1["next"][0]["publish"] = [{"q": x}]
        site = {"task": "t1", "transition": "t2__t0", "at": "done-t1"}
    elif pos == "downstream-input":
        d["tasks"]["t2"]["input"]["bad"] = x
        site = {"task": "t2", "transition": None, "at": "offer-t2"}
    elif pos == "loop-publish":
        # t1 loops on itself once; the publish of the back edge fails on the second visit only
        bad = ("<%% ctx(n) = 0 or (%s) %%>" % KINDS[kind]["yaql"]) if lng == "yaql" else ("{{ 1 if ctx('n') == 0 else (%s) }}" % KINDS[kind]["jinja"])
        t1["next"] = [
            {"when": "<% succeeded() and ctx(n) < 2 %>", "publish": [{"q": bad}, {"n": "<% ctx(n) + 1 %>"}], "do": ["t1"]},
            {"when": "<% succeeded() and ctx(n) >= 2 %>", "do": ["t2"]},
        ]
        site = {"task": "t1", "transition": "t1__t0", "at": "done-t1-second"}
    return d, site


def cells(tier=None):
    out = []
    for pos, kind, lng, var in itertools.product(POSITIONS, KINDS, ("yaql", "jinja"), VARIANTS):
        if kind == "bad-value-type" and pos not in TYPED_POSITIONS:
            continue
        out.append({"pos": pos, "kind": kind, "lang": lng, "variant": var})
    return out


class Guard(object):
    """Applies ops; converts any escaping exception into a violation."""

    def __init__(self, drv, info):
        self.drv, self.info = drv, info

    def __call__(self, op):
        try:
            return self.drv.apply(op)
        except provider.EngineException as e:
            raise Violation("expression-error-escaped-api-call", dict(self.info, error=str(e), op=op, status=self.drv.status(), history=common.history_summary(_R(self.drv))))


class _R(object):
    def __init__(self, d):
        self.d = d


def check_contained(drv, site, info, canceled_ok, n_err_before, planted):
    errs = drv.c.errors[n_err_before:]
    status = drv.status()
    hist = common.history_summary(_R(drv))
    named = [e for e in errs if planted in e.get("message", "") or "Exception" in e.get("message", "") or "Error" in e.get("message", "")]
    if not named:
        raise Violation("no-error-entry-for-failed-expression", dict(info, errors=drv.c.errors, status=status, history=hist))
    if site["task"] is not None:
        ok = [e for e in named if e.get("task_id") == site["task"] and (site["transition"] is None or e.get("task_transition_id") == site["transition"])]
        if not ok:
            raise Violation("error-entry-does-not-name-the-site", dict(info, want=site, errors=named, history=hist))
    else:
        if any(e.get("task_id") for e in named):
            raise Violation("workflow-level-error-names-a-task", dict(info, errors=named))
    allowed = ("failed",) + (("canceled", "canceling") if canceled_ok else ())
    if status not in allowed:
        raise Violation("workflow-not-failed-after-expression-error", dict(info, status=status, errors=drv.c.errors, history=hist))


class NA(Exception):
    """this history variant does not exist for this position"""


def run_cell(scn, stats):
    try:
        return _run_cell(scn, stats)
    except NA:
        stats.evaluations -= 1
        stats.extra["cells-without-such-variant"] += 1


def _run_cell(scn, stats):
    pos, kind, lng, variant = scn["pos"], scn["kind"], scn["lang"], scn["variant"]
    defn, site = build(pos, kind, lng)
    planted = KINDS[kind][lng]
    info = {"cell": scn, "definition": defn}
    try:
        spec = native_specs.WorkflowSpec(copy.deepcopy(defn))
        insp = spec.inspect()
    except Exception as e:  # noqa
        raise Violation("inspect-raised", dict(info, error=repr(e)))
    if insp:
        # inspection already rejects this cell: nothing to contain at run time
        stats.label("rejected-by-inspection")
        stats.extra["cell-rejected:%s:%s:%s" % (pos, kind, lng)] += 1
        raise Reject()
    drv = provider.Driver(defn, {}, spec=spec)
    ap = Guard(drv, info)
    at = site["at"]
    canceled_ok = variant in ("canceling", "late-after-cancel")
    try:
        drv.start()
    except provider.EngineException as e:
        raise Violation("expression-error-escaped-api-call", dict(info, error=str(e), op="start"))
    n0 = 0
    if at == "init":
        if variant != "plain":
            raise NA()  # evaluated before any history exists
        check_contained(drv, site, info, False, 0, planted)
        r = ap({"op": "poll"})
        if r["offers"]:
            raise Violation("task-offered-after-expression-error", dict(info, offers=[o["id"] for o in r["offers"]]))
        stats.label("evaluated")
        stats.mark_nontrivial(scn)
        return

    def control():
        if variant == "pausing":
            ap({"op": "req", "status": "pausing"})
        elif variant == "canceling":
            ap({"op": "req", "status": "canceling"})

    def finish_others():
        for a in list(drv.inflight):
            ap({"op": "done", "a": a, "status": "succeeded", "result": {"code": 200}})

    # ---- drive to the point of evaluation
    ap({"op": "poll"})  # a, sib
    if at in ("offer-t1",):
        if variant in ("pausing", "canceling", "late-after-cancel", "late-after-fail"):
            # while pausing/canceling nothing is rendered for offering; the offer position has one variant
            if variant != "pausing":
                raise NA()
            # pause and resume before the offer: rendering happens on the first poll after resume
            ap({"op": "req", "status": "pausing"})
            ap({"op": "done", "a": ["a", 0, None], "status": "succeeded", "result": {"code": 200}})
            ap({"op": "done", "a": ["sib", 0, None], "status": "succeeded", "result": {"code": 200}})
            ap({"op": "req", "status": "resuming"})
        else:
            ap({"op": "done", "a": ["a", 0, None], "status": "succeeded", "result": {"code": 200}})
        n0 = len(drv.c.errors)
        r = ap({"op": "poll"})
        if any(o["id"] == "t1" for o in r["offers"]):
            raise Violation("task-with-failing-expression-offered", dict(info, offers=[o["id"] for o in r["offers"]]))
        check_contained(drv, site, info, False, n0, planted)
    else:
        ap({"op": "done", "a": ["a", 0, None], "status": "succeeded", "result": {"code": 200}})
        r = ap({"op": "poll"})
        if at == "start-t1":
            # retry count/delay are evaluated when the task is started (inside the poll's dispatch)
            if variant != "plain":
                raise NA()
            check_contained(drv, site, info, False, 0, planted)
        else:
            if [o["id"] for o in r["offers"]] != ["t1"] and at != "offer-t2":
                raise Violation("host-did-not-offer-t1", dict(info, offers=[o["id"] for o in r["offers"]], errors=drv.c.errors))
            if at == "done-t1-second":
                ap({"op": "done", "a": ["t1", 0, None], "status": "succeeded", "result": {"code": 200}})
                ap({"op": "poll"})
            if at in ("done-t1", "done-t1-second"):
                if pos == "retry-when" and variant in ("late-after-cancel", "late-after-fail", "late-while-paused"):
                    raise NA()  # a retry is not considered once the workflow is over: never evaluated
                if variant == "late-after-cancel":
                    ap({"op": "report", "a": ["t1", 0, None], "status": "pending"})
                    ap({"op": "done", "a": ["sib", 0, None], "status": "succeeded", "result": {"code": 200}})
                    ap({"op": "req", "status": "canceled"})
                elif variant == "late-while-paused":
                    # the action is pending (an inquiry), the workflow comes to rest paused, then the answer arrives
                    ap({"op": "report", "a": ["t1", 0, None], "status": "pending"})
                    ap({"op": "done", "a": ["sib", 0, None], "status": "succeeded", "result": {"code": 200}})
                    if drv.status() != "paused":
                        raise Violation("host-not-paused-with-a-pending-action", dict(info, status=drv.status()))
                elif variant == "late-after-fail":
                    ap({"op": "done", "a": ["sib", 0, None], "status": "failed", "result": {"code": 500}})
                else:
                    control()
                n0 = len(drv.c.errors)
                ap({"op": "done", "a": ["t1", 0, None], "status": "succeeded", "result": {"code": 200}})
                check_contained(drv, site, info, canceled_ok, n0, planted)
            elif at == "offer-t2":
                ap({"op": "done", "a": ["t1", 0, None], "status": "succeeded", "result": {"code": 200}})
                if variant != "plain":
                    raise NA()
                n0 = len(drv.c.errors)
                r = ap({"op": "poll"})
                if any(o["id"] == "t2" for o in r["offers"]):
                    raise Violation("task-with-failing-expression-offered", dict(info, offers=[o["id"] for o in r["offers"]]))
                check_contained(drv, site, info, False, n0, planted)
            elif at == "output":
                if variant != "plain":
                    raise NA()
                ap({"op": "done", "a": ["t1", 0, None], "status": "succeeded", "result": {"code": 200}})
                ap({"op": "poll"})
                finish_others()
                ap({"op": "poll"})
                finish_others()
                if drv.status() != "succeeded":
                    raise Violation("host-did-not-succeed", dict(info, status=drv.status(), errors=drv.c.errors))
                ap({"op": "output"})
                check_contained(drv, site, info, False, 0, planted)
    # ---- afterwards: nothing is offered, late reports are absorbed
    finish_others()
    r = ap({"op": "poll"})
    if r["offers"]:
        raise Violation("task-offered-after-expression-error", dict(info, offers=[o["id"] for o in r["offers"]], status=drv.status()))
    finish_others()
    if drv.status() not in ("failed", "canceled"):
        raise Violation("workflow-not-terminal-after-expression-error", dict(info, status=drv.status(), history=common.history_summary(_R(drv))))
    stats.label("evaluated", "variant:" + variant, "pos:" + pos)
    stats.extra["cell:%s:%s:%s" % (pos, kind, lng)] += 1
    stats.mark_nontrivial(scn)
    if pos in ("publish", "retry-when", "items-list") and kind == "missing-key":
        stats.sample({"cell": scn, "definition": defn, "errors": drv.c.errors, "history": common.history_summary(_R(drv))})


# ----------------------------------------------------------------------------- generated hosts

PLANTS = ["task-input", "transition-when", "publish", "retry-when", "action"]


def run_host(scn, stats):
    ir = scn["ir"]
    defn = lang.to_defn(ir)
    names = sorted(ir["tasks"])
    tname = names[scn["target"] % len(names)]
    t = defn["tasks"][tname]
    kind = [k for k in sorted(KINDS) if k != "bad-value-type"][scn["kind"] % 4]
    lng = ("yaql", "jinja")[scn["lng"] % 2]
    x = expr(kind, lng)
    plant = PLANTS[scn["plant"] % len(PLANTS)]
    defn["vars"] = (defn.get("vars") or []) + [{"d": {"k": 1}}, {"s": "str"}, {"l": [1]}]
    trans = None
    if plant == "task-input":
        t.setdefault("input", {})["bad"] = x
    elif plant == "action":
        t["action"] = x
    elif plant == "retry-when":
        t["retry"] = {"count": 1, "when": x}
    else:
        if not t.get("next"):
            t["next"] = [{"do": ["noop"]}]
        k = scn["target"] % len(t["next"])
        if plant == "transition-when":
            t["next"][k]["when"] = x
        else:
            t["next"][k]["publish"] = (t["next"][k].get("publish") or []) + [{"zz": x}]
        trans = k
    s2 = dict(scn, defn=defn)
    _, drv = common.build(s2, stats)
    info = {"definition": defn, "planted": {"task": tname, "where": plant, "expr": x}}
    state = {"hit": False, "offers_after": None}

    def ob(d, rec):
        errs = [e for e in d.c.errors if KINDS[kind][lng] in e.get("message", "")]
        if errs and not state["hit"]:
            state["hit"] = True
            state["before"] = rec["before"]
            bad = [e for e in errs if e.get("task_id") != tname]
            if bad:
                raise Violation("error-entry-does-not-name-the-site", dict(info, errors=errs, history=common.history_summary(_R(d))))
            if plant in ("transition-when", "publish") and not any(e.get("task_transition_id") for e in errs):
                raise Violation("error-entry-does-not-name-the-transition", dict(info, errors=errs))
            if rec["after"] not in ("failed", "canceled", "canceling"):
                raise Violation("workflow-not-failed-after-expression-error", dict(info, status=rec["after"], history=common.history_summary(_R(d))))
            if rec["after"] in ("canceled", "canceling") and rec["before"] not in ("canceled", "canceling"):
                raise Violation("workflow-not-failed-after-expression-error", dict(info, status=rec["after"], before=rec["before"]))
            state["n"] = len(d.steps)
        elif state["hit"] and [o for o in rec["offers"] if o["id"] not in fo.flow.cleanup_ok]:
            # (clean-up tasks listed beside a fail command are the documented exception, see C04)
            raise Violation("task-offered-after-expression-error", dict(info, offers=[(o["id"], o["route"]) for o in rec["offers"]], history=common.history_summary(_R(d))))

    from vf import refsem

    fo = refsem.FlowObserver(ir)
    drv.observers.append(fo)
    drv.observers.append(ob)
    r = sched.Run(drv, scn)
    try:
        r.run()
        if drv.status() in provider.TERMINAL:
            r.step({"op": "poll"})
    except provider.EngineException as e:
        raise Violation("expression-error-escaped-api-call", dict(info, error=str(e), history=common.history_summary(r)))
    except (provider.KnownTrigger, provider.Anomaly):
        return
    stats.label("plant:" + plant, "hit" if state["hit"] else "not-reached")
    if state["hit"]:
        stats.mark_nontrivial(scn)


def strat_host(tier):
    base = gen.scenario(gen.cfg(p_loop=0.2, items=0.1, retry=0.0), flags={}, max_choices=40, controls={"pause": 1, "resume": 1, "cancel": 1}, p_fail=0.1)
    return st.builds(lambda s, a, b, c, d: dict(s, target=a, kind=b, lng=c, plant=d), base, st.integers(0, 50), st.integers(0, 3), st.integers(0, 1), st.integers(0, 9))


PARTS = [
    Part("matrix", run_cell, enumerate=cells, rule="exhaustive position x kind x language x history-variant matrix (cells that have no such variant are rejected and counted)"),
    Part("hosts", run_host, strat_host, {"quick": 1200, "thorough": 40000}, rule="random hosts with one planted failing expression"),
]
