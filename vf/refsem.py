"""Reference semantics of control flow (independent of the engine).

`Flow` is fed provider-side facts only - which (task, route) was offered, which action completed
with what status/result, and the workflow status the public API reported before the call (needed
for "retry only while the workflow is active") - and predicts:

  * due work: a multiset of task executions that the definition prescribes for the outcomes so far;
  * join instances keyed (join task, route): distinct inbound tasks with a satisfied transition;
  * retry decisions, with-items task completion, handled / unhandled failures, fail commands;
  * which tasks may still be offered after `failed` (clean-up siblings of a fail command).

It never looks at the conductor's state.  The only engine-produced identity it uses is the route
number returned with each offered task (public return value).
"""
import collections

from vf import lang

ABENDED = ("failed", "timeout", "abandoned")
ACTIVE_WF = ("requested", "scheduled", "delayed", "running", "resuming", "pausing", "canceling")


class Flow(object):
    def __init__(self, ir):
        self.ir = ir
        self.tasks = ir["tasks"]
        self.inb = lang.inbound(ir)
        self.split = {n: lang.is_split(ir, n) for n in self.tasks}
        self.body = set((ir.get("loop") or {}).get("body") or [])
        self.due = collections.Counter()
        for r in lang.roots(ir):
            self.due[(r, 0)] += 1
        self.joins = {}  # (join, route) -> {"arrived": set, "fired": n}
        self.open = {}  # (task, route) -> execution record (dispatched, not yet completed)
        self.n_at = {}
        self.executed = collections.Counter()  # task -> executions started
        self.must_fail = False
        self.fail_cmd = False
        self.runtime_error = False
        self.unhandled = []
        self.handled_failures = 0
        self.late_arrivals = []  # (join, route, from_task): arrival at an already fired instance
        self.cleanup_ok = set()
        self.fail_cmds = 0
        self.problems = []  # (kind, detail) found while observing offers
        self.retried = 0
        self.canceled_action = False
        self.events = set()
        self.static = {n: v for n, v in (ir.get("vars") or []) if not lang.is_expr(v)}
        self.retry_declined = 0
        self.rerun_items = set()  # (task, route) of with-items executions re-armed by a rerun (set by C17)

    # ------------------------------------------------------------------ offers
    def _take_due(self, task, route):
        for key in ((task, route), (task, None)):
            if self.due[key] > 0:
                self.due[key] -= 1
                return True
        return False

    def offer(self, o):
        """Observe one offered task (dict from the driver).  Returns 'new', 'items' or 'retry'."""
        task, route = o["id"], o["route"]
        t = self.tasks.get(task)
        if t is None:
            self.problems.append(("offer-of-unknown-task", {"task": task}))
            return "new"
        ex = self.open.get((task, route))
        if ex is not None and ex.get("retry_pending"):
            ex["retry_pending"] = False
            ex["attempt_open"] = True
            ex["offered_delay"] = o.get("delay")
            o["expected_retry_delay"] = ex.get("retry_delay", 0)
            if t.get("with"):
                ex["items_offered"] = set(o["items"])
                ex["items_done"] = {}
            return "retry"
        if ex is not None and t.get("with") and ex.get("attempt_open"):
            # further items of a running with-items execution
            dup = ex["items_offered"] & set(o["items"])
            if dup:
                self.problems.append(("item-offered-twice", {"task": task, "route": route, "items": sorted(dup)}))
            ex["items_offered"] |= set(o["items"])
            return "items"
        if ex is not None:
            self.problems.append(("offer-of-task-already-in-flight", {"task": task, "route": route}))
            return "new"
        if not self._take_due(task, route):
            self.problems.append(("offer-without-due-execution", {"task": task, "route": route, "due": self.due_view()}))
        self.executed[task] += 1
        ex = {"attempts": 1, "attempt_open": True, "retry_pending": False, "n": self.n_at.get((task, route), 0)}
        if t.get("with"):
            ex["items_n"] = o.get("items_count")
            ex["items_offered"] = set(o["items"])
            ex["items_done"] = {}
            if (task, route) in self.rerun_items:
                # a rerun of a with-items execution without a concurrency limit offers the items that are to
                # run again at once (the others keep their results): these are all it has to wait for
                self.rerun_items.discard((task, route))
                ex["items_n"] = len(o["items"])
        self.open[(task, route)] = ex
        return "new"

    def due_view(self):
        return {"%s|%s" % k: v for k, v in self.due.items() if v > 0}

    def has_due(self):
        return any(v > 0 for v in self.due.values())

    # ------------------------------------------------------------------ completions
    def complete(self, a, status, result, wf_before, retry_observed=None):
        """Observe the report of one action.  Returns a dict describing what the model concluded:
        {"task_done": bool, "task_status", "retried", "satisfied": [...], "targets": [...], ...}"""
        task, route, item = a
        t = self.tasks[task]
        ex = self.open.get((task, route))
        info = {"task_done": False, "retried": False, "satisfied": [], "targets": [], "handled": None, "fail_cmd": False, "runtime_error": False}
        if ex is None:
            info["stale"] = True
            return info
        if status == "canceled":
            self.canceled_action = True
            # trigger of known finding R26: an action's own `canceled` report cancels the workflow, but
            # with-items tasks that still have items to offer are not canceled along with it
            if any("items_n" in e and len(e["items_offered"]) < (e["items_n"] or 0) and k != (task, route) for k, e in self.open.items()):
                self.events.add("canceled-report-with-unoffered-items")
        # ---- with-items: task-level completion from item statuses
        if item is not None and item != "empty":
            ex["items_done"][item] = status
            active = ex["items_offered"] - set(ex["items_done"])
            if active:
                return info
            sts = list(ex["items_done"].values())
            if any(s in ABENDED for s in sts):
                tstatus = "failed"
            elif any(s == "canceled" for s in sts):
                tstatus = "canceled"
            elif len(ex["items_done"]) >= (ex.get("items_n") or 0):
                tstatus = "succeeded"
            else:
                return info  # more items to offer
            tresult = None  # list of item results; conditions on it are not generated
        else:
            tstatus = "failed" if status in ABENDED else status
            tresult = result if item is None else []
        info["task_status"] = tstatus
        if wf_before in ("failed", "succeeded", "canceled"):
            # late completion on a finished workflow: nothing more may follow from it (C04)
            info["late"] = True
        # ---- retry
        r = t.get("retry")
        cmd_when = None
        for tr in t.get("next") or []:
            if "retry" in lang.targets(tr):
                cmd_when = tr.get("when")
        if (r or cmd_when is not None) and tstatus in lang.COMPLETED and wf_before in ACTIVE_WF:
            sctx = dict(self.static, n=ex["n"])
            count = 3 if not r else lang.ev(r["count"], ctx=sctx)
            when = (r or {}).get("when") if r else (cmd_when if cmd_when and cmd_when["e"] != ["true"] else lang.E(["completed"]))
            try:
                if ex["attempts"] - 1 < count:
                    if when is None:
                        want = tstatus == "failed"
                    else:
                        want = bool(lang.ev(when, tstatus, tresult, sctx))
                else:
                    want = False
            except lang.ModelError:
                want = False
                info["runtime_error"] = True
                self.runtime_error = True
                self.must_fail = True
            info["retry_allowed"] = want
            info["attempts"] = ex["attempts"]
            info["retry_count"] = count
            if retry_observed is not None:
                if retry_observed and not want:
                    self.problems.append(("retry-not-allowed", {"task": task, "route": route, "attempts": ex["attempts"], "count": count, "status": tstatus, "result": tresult}))
                if want and not retry_observed:
                    self.retry_declined += 1
                want = bool(retry_observed)
            if want:
                ex["attempts"] += 1
                ex["attempt_open"] = False
                ex["retry_pending"] = True
                ex["retry_delay"] = lang.ev((r or {}).get("delay"), ctx=sctx) or 0
                self.retried += 1
                info["retried"] = True
                self.events.add("retry")
                return info
        # ---- the execution is over
        info["task_done"] = True
        del self.open[(task, route)]
        if tstatus not in lang.COMPLETED:
            return info
        n_here = ex["n"]
        sat = []
        for i, tr in enumerate(t.get("next") or []):
            try:
                ok = bool(lang.ev(tr.get("when") or lang.E(["true"]), tstatus, tresult, {"n": n_here}))
            except lang.ModelError:
                ok = False
                info["runtime_error"] = True
            if ok:
                sat.append(i)
        info["satisfied"] = sat
        tgts = []
        for i in sat:
            tr = t["next"][i]
            pub_n = any(p[0] == "n" for p in tr.get("publish") or [])
            for tg in lang.targets(tr):
                if tg == "retry":
                    continue
                tgts.append(tg)
                if tg in self.tasks:
                    self._arrive(task, route, tg, n_here + (1 if pub_n else 0))
        info["targets"] = tgts
        handled = any(tg != "continue" for tg in tgts)
        info["handled"] = handled
        if info["runtime_error"]:
            self.runtime_error = True
            self.must_fail = True
        if "fail" in tgts:
            info["fail_cmd"] = True
            self.fail_cmd = True
            self.must_fail = True
            self.cleanup_ok |= {tg for tg in tgts if tg in self.tasks}
            self.fail_cmds += 1
            self.events.add("fail-command")
        if tstatus == "failed":
            if handled:
                self.handled_failures += 1
                self.events.add("handled-failure")
            else:
                self.unhandled.append((task, route))
                self.must_fail = True
                self.events.add("unhandled-failure")
        return info

    def _arrive(self, src, route, tg, n_val):
        t = self.tasks[tg]
        j = t.get("join")
        if tg in self.body:
            self.n_at[(tg, route)] = n_val
        if j is None:
            self.due[(tg, None if self.split[tg] else route)] += 1
            return
        inst = self.joins.setdefault((tg, route), {"arrived": set(), "fired": 0})
        need = len(self.inb[tg]) if j == "all" else j
        if inst["fired"]:
            self.late_arrivals.append((tg, route, src))
            self.events.add("late-arrival-at-fired-join")
            inst["arrived"].add(src)
            return
        inst["arrived"].add(src)
        if len(inst["arrived"]) >= need:
            inst["fired"] += 1
            self.due[(tg, route)] += 1
            self.events.add("join-fired")

    def partial_joins(self):
        return [(k, sorted(v["arrived"])) for k, v in self.joins.items() if v["arrived"] and not v["fired"]]


class FlowObserver(object):
    """Driver observer that feeds a Flow from step records."""

    def __init__(self, ir, observe_retry=False):
        self.flow = Flow(ir)
        self.last = None  # info of the last completion
        self.observe_retry = observe_retry

    def __call__(self, drv, rec):
        op = rec["op"]
        self.last = None
        if op["op"] == "poll":
            for o in rec["offers"]:
                o["kind"] = self.flow.offer(o)
        elif op["op"] == "done":
            ro = None
            if self.observe_retry:
                # the engine's decision, read from the persisted record (C13 checks that it was allowed)
                ent = drv.c.get_task_state_entry(op["a"][0], op["a"][1])
                ro = bool(ent) and ent.get("status") == "retrying"
            self.last = self.flow.complete(tuple(op["a"]), op["status"], op.get("result"), rec["before"], retry_observed=ro)
        elif op["op"] == "report" and op["status"] in ("pending", "paused"):
            # trigger of known finding R21: a pending action pauses the workflow without pausing
            # with-items tasks that still have items to offer
            if any("items_n" in e and len(e["items_offered"]) < (e["items_n"] or 0) for e in self.flow.open.values()):
                self.flow.events.add("pending-with-unoffered-items")
        elif op["op"] == "rerun" and not rec["rejected"]:
            # a rerun resumes the workflow as well; tasks left pausing/paused by an earlier workflow pause stay so (R18)
            if any("items_n" in e for e in self.flow.open.values()):
                self.flow.events.add("resume-with-open-items")
        elif op["op"] == "req" and not rec["rejected"]:
            if op["status"] in ("resuming", "running") and rec["before"] in ("pausing", "paused"):
                # trigger of known finding R18: tasks paused by the workflow pause are not resumed
                if any("items_n" in e for e in self.flow.open.values()):
                    self.flow.events.add("resume-with-open-items")
        # the driver completes empty with-items tasks itself, inside the poll
        if op["op"] == "poll":
            for o in rec["offers"]:
                if o.get("items_count") == 0:
                    self.flow.complete((o["id"], o["route"], "empty"), "succeeded", [], rec["before"])
