"""Development helper (never used by a registered command): run a part in-process and print the
first scenario per engine-exception bucket / label, or find a failing scenario."""
import collections
import json
import sys
import logging

logging.disable(logging.CRITICAL)
import importlib

from hypothesis import HealthCheck, given, seed, settings

from vf import provider
from vf.props import common
from vf.runner import Reject, Stats, Violation


def main(prop, partname, n, sd=1):
    mod = importlib.import_module("vf.props.%s" % prop.lower())
    part = [p for p in mod.PARTS if p.name == partname][0]
    buckets = {}
    hist = {}
    stats = Stats()
    orig = provider.EngineException.__init__

    cur = {}

    def init(self, call, e):
        orig(self, call, e)
        import traceback

        cur["last_exc"] = self
        buckets.setdefault("%s@%s" % (self.etype, self.site), (cur.get("scn"), "".join(traceback.format_exception(e))[-1500:]))

    provider.EngineException.__init__ = init

    @seed(sd)
    @settings(max_examples=n, database=None, deadline=None, suppress_health_check=list(HealthCheck))
    @given(part.strategy("quick"))
    def t(scn):
        cur["scn"] = scn
        cur.pop("last_exc", None)
        try:
            part.run(scn, stats)
        except Reject:
            pass
        except Violation as v:
            from vf import runner
            k = runner.match_known(prop.upper(), part.name, scn, v)
            if not k:
                raise
            stats.excluded[k] += 1
        x = cur.get("last_exc")
        if x is not None and getattr(x, "driver", None) is not None:
            k = "%s@%s" % (x.etype, x.site)
            if k not in hist:
                class R: pass
                r = R(); r.d = x.driver
                hist[k] = common.history_summary(r, 200) + ["FAILING CALL %s %s" % (x.call, getattr(x, "args_repr", ""))]

    try:
        t()
    except Violation as v:
        print("VIOLATION", v)
        json.dump(cur["scn"], open("/tmp/dev_violation.json", "w"))
    for k, (scn, tb) in buckets.items():
        print("=" * 30, k)
        print(tb)
        print("\n".join(hist.get(k, [])))
        from vf import lang
        print(json.dumps(lang.to_defn(scn["ir"]))[:3000] if "ir" in scn else json.dumps(scn)[:3000])
        json.dump(scn, open("/tmp/dev_%s.json" % k.replace("/", "_").replace(":", "_"), "w"))
    print(stats.labels.most_common(40))
    print(dict(stats.engine_exceptions), dict(stats.excluded), "nontrivial", len(stats.nontrivial), "evals", stats.evaluations)


if __name__ == "__main__":
    main(sys.argv[1], sys.argv[2], int(sys.argv[3]), int(sys.argv[4]) if len(sys.argv) > 4 else 1)
