"""Matchers for known findings (see known_findings.json and DESIGN.md section 5).

A matcher is a narrow predicate over (scenario, violation) written in terms of the defect.  The
file of findings is read-only at run time; matchers never widen.
"""


def never(scn, v):
    return False


def _events(v):
    d = v.detail if isinstance(v.detail, dict) else {}
    return set(d.get("events") or [])


def r18_c02(scn, v):
    """R18: tasks set to pausing/paused by a workflow pause are not resumed by the resume request;
    a sibling completing afterwards flips the resumed workflow back to pausing, where a with-items
    task waiting between batches is never offered its next items."""
    return v.kind == "nothing-in-flight-while-pausing" and "resume-with-open-items" in _events(v)


def r18_c03(scn, v):
    return v.kind == "stuck-in-pausing" and "resume-with-open-items" in _events(v)


def r21_c02(scn, v):
    """R21: an action reported pending moves the workflow to pausing, but a with-items task that still
    has items to offer stays `running` between batches: nothing is in flight, status stays pausing."""
    return v.kind == "nothing-in-flight-while-pausing" and "pending-with-unoffered-items" in _events(v)


def r21_c03(scn, v):
    return v.kind == "stuck-in-pausing" and "pending-with-unoffered-items" in _events(v)
