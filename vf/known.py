"""Matchers for known findings (see known_findings.json and DESIGN.md section 5).

A matcher is a narrow predicate over (scenario, violation) written in terms of the defect.  The
file of findings is read-only at run time; matchers never widen.
"""


def never(scn, v):
    return False
