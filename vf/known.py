"""Matchers for known findings (see known_findings.json and DESIGN.md section 5).

A matcher is a narrow predicate over (scenario, violation) written in terms of the defect.  The
file of findings is read-only at run time; matchers never widen.
"""


def never(scn, v):
    return False


def _events(v):
    d = v.detail if isinstance(v.detail, dict) else {}
    return set(d.get("events") or [])


def r18_c02(scn, v):
    """R18: tasks set to pausing/paused by a workflow pause are not resumed by the resume request;
    a sibling completing afterwards flips the resumed workflow back to pausing, where a with-items
    task waiting between batches is never offered its next items."""
    return v.kind == "nothing-in-flight-while-pausing" and "resume-with-open-items" in _events(v)


def r18_c03(scn, v):
    return v.kind == "stuck-in-pausing" and "resume-with-open-items" in _events(v)


def r21_c02(scn, v):
    """R21: an action reported pending moves the workflow to pausing, but a with-items task that still
    has items to offer stays `running` between batches: nothing is in flight, status stays pausing."""
    return v.kind == "nothing-in-flight-while-pausing" and "pending-with-unoffered-items" in _events(v)


def r21_c03(scn, v):
    return v.kind == "stuck-in-pausing" and "pending-with-unoffered-items" in _events(v)


def r1_c07(scn, v):
    """R1: join: N with N < number of inbound tasks; a further inbound task reports after the join
    instance has fired (while the join runs or after it completed) and the join is staged and
    offered again on the same route."""
    if v.kind != "join-ran-again-after-late-arrival":
        return False
    from vf import lang

    d = v.detail or {}
    j = d.get("join")
    t = scn["ir"]["tasks"].get(j) or {}
    n = t.get("join")
    inb = lang.inbound(scn["ir"]).get(j, ())
    return isinstance(n, int) and not isinstance(n, bool) and n < len(inb)


def r3_c08(scn, v):
    """R3 seen through C08: the value of an output variable depends on completion order although all
    its writers are causally ordered (ancestor / descendant): a context that merely inherited the
    older value is merged after the newer publish (at a join or in the terminal context)."""
    if v.kind != "output-depends-on-order":
        return False
    from vf import lang

    d = v.detail or {}
    ws = d.get("writers") or []
    if len(ws) < 2:
        return False  # a stale value needs an older and a newer writer
    rch = lang.reach(scn["ir"])
    for i in range(len(ws)):
        for j in range(i + 1, len(ws)):
            if ws[j] not in rch[ws[i]] and ws[i] not in rch[ws[j]]:
                return False
    return True


def r17_c09(scn, v):
    """R17: the pause lands before the last action reports, so the workflow comes to rest paused with
    nothing left and the resume request completes it directly; no task execution is flagged terminal
    on that path, so the output is rendered from the initial context and published values are lost."""
    d = v.detail or {}
    return v.kind in ("output-differs", "status-after-output-differs") and bool(d.get("completed_on_resume"))


def r23_c17(scn, v):
    """R23: the workflow failed through the fail command, its clean-up tasks failed too; a rerun of those
    tasks that now succeed ends `succeeded` - the fail command is forgotten - where the clean run fails."""
    d = v.detail or {}
    return v.kind == "status-differs-from-clean-run" and d.get("rerun_status") == "succeeded" and d.get("clean_status") == "failed" and "fail-command" in (d.get("events") or [])


def r3_c06(scn, v):
    """R3 (owned by C06): at a join or in the terminal context a branch that merely inherited an older
    value of a variable (its own copy of the publishing transition's delta) is overlaid after the branch
    that republished it: the observed value is one of the candidates the model marks superseded."""
    d = v.detail or {}
    return v.kind in ("task-context-differs", "output-not-from-a-live-terminal-candidate") and d.get("observed_is_superseded_candidate") is True


def r26_c02(scn, v):
    """R26: an action's own `canceled` report moves the workflow to canceling, but a with-items task that
    still has items to offer stays `running` between batches: status canceling with nothing in flight."""
    return v.kind == "nothing-in-flight-while-canceling" and "canceled-report-with-unoffered-items" in _events(v)


def r26_c03(scn, v):
    return v.kind == "stuck-in-canceling" and "canceled-report-with-unoffered-items" in _events(v)
