"""Hypothesis strategies: definition IRs, outcome tables, choice lists, scenarios.

Constructive (forward edges only + explicit loop template), so that almost every generated
definition is inspection-clean; the rejection rate is measured by the runner.
"""
from hypothesis import strategies as st

from vf import lang
from vf.lang import E

POOL = ["x", "y", "z"]

DEFAULT_CFG = {
    "min_tasks": 2,
    "max_tasks": 7,
    "p_join": 0.5,  # a task with >= 2 distinct inbound tasks becomes a join
    "join_n": True,  # allow join: N
    "commands": True,  # noop / fail / continue targets
    "retry_cmd": False,
    "p_loop": 0.25,
    "publish": True,
    "result_conds": True,
    "ctx_conds": False,
    "items": 0.0,  # probability that a task is a with-items task
    "retry": 0.0,  # probability that a task has a retry policy
    "delay": 0.0,
    "input_refs": True,  # task inputs reference pool variables
    "output": True,
    "max_tr": 3,
    "acyclic": False,
    "items_join_target": True,
    "pub_ctx": True,  # publishes may copy another context variable
    "items_conc": True,  # with-items tasks may have a concurrency limit
    "retry_expr": False,  # retry count / delay may be expressions over vars rc / rd
    "name_mix": False,  # task names may sort before the engine commands' names
    "dict_vals": False,  # the variable `z` holds a dict and publishes to it are dicts (the engine deep-merges them)
    "bad_vars": 0.0,  # probability of a workflow variable whose expression fails when the conductor initialises
}


def cfg(**kw):
    c = dict(DEFAULT_CFG)
    c.update(kw)
    return c


@st.composite
def conds(draw, c, lang_):
    base = [["true"], ["true"], ["succeeded"], ["succeeded"], ["failed"], ["completed"]]
    if c["result_conds"]:
        base += [["res_eq", "code", 200], ["res_ne", "code", 200], ["res_eq", "code", 500]]
    e = list(draw(st.sampled_from(base)))
    if c["ctx_conds"] and draw(st.integers(0, 5)) == 0:
        v = draw(st.sampled_from(["n"]))
        e = ["and", e, list(draw(st.sampled_from([["ctx_lt", v, 5], ["ctx_ge", v, 0]])))] if e != ["true"] else ["ctx_ge", v, 0]
    if e[0] not in ("true",) and draw(st.integers(0, 9)) == 0:
        e = ["not", e]
    return E(e, lang_(draw), draw(st.integers(0, 3)))


def _langpick(mode):
    def f(draw):
        if mode == "mixed":
            return draw(st.sampled_from([lang.YAQL, lang.JINJA]))
        return mode

    return f


@st.composite
def wf_ir(draw, c=None):
    c = c or DEFAULT_CFG
    mode = draw(st.sampled_from([lang.YAQL, lang.YAQL, lang.JINJA, "mixed"]))
    lp = _langpick(mode)
    n = draw(st.integers(c["min_tasks"], c["max_tasks"]))
    # (task names that sort before / after the names of the engine commands: `e3` < `fail` < `t3`)
    prefix = draw(st.sampled_from(["t", "t", "e"])) if c["name_mix"] else "t"
    names = ["%s%d" % (prefix, i) for i in range(n)]
    tasks = {}
    site = [0]

    def pub_list(tname):
        pubs = []
        if c["publish"]:
            for _ in range(draw(st.sampled_from([0, 0, 1, 1, 2]))):
                var = draw(st.sampled_from(POOL))
                site[0] += 1
                kind = draw(st.integers(0, 5))
                if kind == 4 and not c["pub_ctx"]:
                    kind = 0
                if c["dict_vals"] and var == "z":
                    val = {"k%d" % (site[0] % 3): "p%d@%s" % (site[0], tname)}
                elif kind <= 2:
                    val = "p%d@%s" % (site[0], tname)
                elif kind == 3:
                    val = E(["res_key", "tok"], lp(draw))
                elif kind == 4:
                    val = E(["ctx", draw(st.sampled_from(POOL))], lp(draw), draw(st.integers(0, 3)))
                else:
                    val = ["l%d" % site[0], site[0]]
                pubs.append([var, val])
        return pubs

    for i, nm in enumerate(names):
        later = names[i + 1 :]
        t = {"action": "core.act", "next": []}
        if c["input_refs"]:
            t["input"] = {v: E(["ctx", v], lp(draw), draw(st.integers(0, 3))) for v in POOL}
            t["input"]["who"] = nm
        ntr = draw(st.sampled_from([0, 1, 1, 2, 2, 3][: c["max_tr"] + 3])) if later else draw(st.sampled_from([0, 0, 0, 1]))
        for k in range(ntr):
            tr = {"when": draw(conds(c, lp))}
            do = []
            if later:
                do = draw(st.lists(st.sampled_from(later), min_size=0, max_size=min(3, len(later)), unique=True))
            if c["commands"] and draw(st.integers(0, 5)) == 0:
                do = do + [draw(st.sampled_from(["noop", "fail", "continue"]))]
            tr["do"] = do
            tr["publish"] = pub_list(nm)
            t["next"].append(tr)
        tasks[nm] = t

    ir = {"vars": [[v, "init_" + v] for v in POOL], "tasks": tasks}
    if c["dict_vals"]:
        ir["vars"] = [[v, {"k0": "init_z"} if v == "z" else "init_" + v] for v in POOL]

    # connect most orphans so that definitions have depth, not just many parallel roots
    inb0 = lang.inbound(ir)
    for i, nm in enumerate(names):
        if i > 0 and not inb0[nm] and draw(st.integers(0, 4)) > 0:
            src = names[draw(st.integers(0, i - 1))]
            trs = tasks[src]["next"]
            if trs and draw(st.booleans()):
                tr = trs[draw(st.integers(0, len(trs) - 1))]
                if nm not in tr["do"]:
                    tr["do"] = [x for x in tr["do"] if x not in ("noop", "fail", "continue")] + [nm] + [x for x in tr["do"] if x in ("noop", "fail", "continue")]
            else:
                trs.append({"when": draw(conds(c, lp)), "do": [nm], "publish": pub_list(src)})

    # joins
    inb = lang.inbound(ir)
    for nm in names:
        k = len(inb[nm])
        if k >= 2 and draw(st.floats(0, 1)) < c["p_join"]:
            if c["join_n"] and draw(st.booleans()):
                tasks[nm]["join"] = draw(st.integers(1, k))
            else:
                tasks[nm]["join"] = "all"

    # with-items / retry / delay decorations
    need_rc = []
    for nm in names:
        t = tasks[nm]
        if c["items"] and draw(st.floats(0, 1)) < c["items"]:
            if c["items_join_target"] or (len(inb[nm]) <= 1 and not lang.is_split(ir, nm)):
                cnt = draw(st.sampled_from([0, 1, 2, 3, 3, 4]))
                t["with"] = {"items": E(["lit", list(range(cnt))], lp(draw)), "keys": draw(st.sampled_from([None, ["i"]]))}
                conc = draw(st.sampled_from([None, None, 1, 2, 3]))
                if conc is not None and c["items_conc"]:
                    t["with"]["concurrency"] = conc
        if c["retry"] and draw(st.floats(0, 1)) < c["retry"]:
            t["retry"] = {"count": draw(st.integers(0, 2))}
            # (incl. conditions that are false for some failed attempts: failures carry code 500 or 404)
            w = draw(st.sampled_from([None, None, ["failed"], ["res_ne", "code", 200], ["completed"], ["succeeded"], ["res_eq", "code", 404], ["and", ["failed"], ["res_eq", "code", 404]]]))
            if w:
                t["retry"]["when"] = E(w, lp(draw))
            if draw(st.booleans()):
                t["retry"]["delay"] = draw(st.integers(0, 3))
            if c["retry_expr"] and draw(st.integers(0, 2)) == 0:
                t["retry"]["count"] = E(["ctx", "rc"], lp(draw), draw(st.integers(0, 3)))
                need_rc.append(1)
            if c["retry_expr"] and draw(st.integers(0, 3)) == 0:
                t["retry"]["delay"] = E(["ctx", "rd"], lp(draw), draw(st.integers(0, 3)))
                need_rc.append(1)
        if c["delay"] and draw(st.floats(0, 1)) < c["delay"]:
            t["delay"] = draw(st.integers(0, 5))
    if need_rc:
        ir["vars"].append(["rc", draw(st.integers(0, 3))])
        ir["vars"].append(["rd", draw(st.integers(0, 4))])
    if c["retry_cmd"]:
        for nm in names:
            if draw(st.integers(0, 7)) == 0 and not tasks[nm].get("retry"):
                tasks[nm]["next"].append({"when": E(["failed"], lp(draw)), "do": ["retry"], "publish": []})

    # loop template: tp -> l0 -> ... -> lk -(back, counter)-> l0 ; lk -(exit)-> later tasks
    if not c["acyclic"] and n >= 2 and draw(st.floats(0, 1)) < c["p_loop"]:
        p = draw(st.integers(0, n - 1))
        klen = draw(st.integers(1, 3))
        bound = draw(st.integers(1, 3))
        body = ["l%d" % j for j in range(klen)]
        ir["vars"].append(["n", 0])
        ll = lp(draw)
        for j, b in enumerate(body):
            bt = {"action": "core.act", "next": []}
            if c["input_refs"]:
                bt["input"] = {"n": E(["ctx", "n"], ll, draw(st.integers(0, 3))), "who": b}
            if j < klen - 1:
                bt["next"].append({"when": E(draw(st.sampled_from([["true"], ["succeeded"]])), ll), "do": [body[j + 1]], "publish": pub_list(b)})
            else:
                exits = draw(st.lists(st.sampled_from(names[p + 1 :]), max_size=2, unique=True)) if names[p + 1 :] else []
                bt["next"].append({
                    "when": E(["and", ["succeeded"], ["ctx_lt", "n", bound]], ll, draw(st.integers(0, 3))),
                    "publish": [["n", E(["ctx_plus", "n", 1], ll, draw(st.integers(0, 3)))]] + pub_list(b),
                    "do": [body[0]],
                })
                bt["next"].append({
                    "when": E(["and", ["succeeded"], ["ctx_ge", "n", bound]], ll, draw(st.integers(0, 3))),
                    "publish": pub_list(b),
                    "do": exits,
                })
            if c["retry_expr"] and c["retry"] and draw(st.integers(0, 2)) == 0:
                # a retry policy that depends on the loop counter: every visit has its own count and delay
                bt["retry"] = {"count": E(["ctx_rsub", "n", bound + draw(st.integers(0, 1))], ll, draw(st.integers(0, 3)))}
                if draw(st.booleans()):
                    bt["retry"]["delay"] = E(["ctx_plus", "n", draw(st.integers(1, 2))], ll, draw(st.integers(0, 3)))
            tasks[b] = bt
        tasks[names[p]]["next"].append({"when": draw(conds(c, lp)), "do": [body[0]], "publish": pub_list(names[p])})
        ir["loop"] = {"body": body, "entry": names[p], "bound": bound}
        # exits may have given some task a second distinct inbound: joins there are fine ('all' or N
        # counts lk once); nothing else to repair.

    # a with-items task's result is the list of item results: conditions / publishes on result().key
    # would be run-time expression errors (C11 owns those), so use status conditions there
    for nm in list(tasks):
        t = tasks[nm]
        if t.get("with"):
            if t["with"].get("keys"):
                t.setdefault("input", {})["it"] = E(["item_key", "i"], lp(draw))
            else:
                t.setdefault("input", {})["it"] = E(["item"], lp(draw))
            for tr in t["next"]:
                if "res_" in repr(tr["when"]["e"]):
                    tr["when"] = E(draw(st.sampled_from([["succeeded"], ["failed"], ["completed"]])), tr["when"]["lang"])
                for pv in tr["publish"]:
                    if lang.is_expr(pv[1]) and pv[1]["e"][0] == "res_key":
                        pv[1] = E(["res"], pv[1]["lang"])
            if t.get("retry") and t["retry"].get("when") and "res_" in repr(t["retry"]["when"]["e"]):
                t["retry"]["when"] = E(["failed"], t["retry"]["when"]["lang"])
    if c["bad_vars"] and draw(st.floats(0, 1)) < c["bad_vars"]:
        ir["vars"].append(["bad", E(["ctx_plus", "x", 1], lp(draw))])  # 'init_x' + 1: type error at run time
    if c["output"]:
        ir["output"] = [[v + "_out", E(["ctx", v], lp(draw), draw(st.integers(0, 3)))] for v in POOL]
    return ir


@st.composite
def outcomes(draw, ir, p_fail=0.25, abend=True, per_attempt=3, fixed=False, canceled=False):
    """task -> [[status, code], ...] consumed cyclically per completion of that task."""
    table = {}
    sts = ["failed", "failed", "failed", "timeout", "abandoned"] if abend else ["failed"]
    if canceled:
        sts = sts + ["canceled"]
    for nm in ir["tasks"]:
        k = 1 if fixed else draw(st.integers(1, per_attempt))
        row = []
        for _ in range(k):
            if draw(st.floats(0, 1)) < p_fail:
                row.append([draw(st.sampled_from(sts)), draw(st.sampled_from([500, 500, 404]))])
            else:
                row.append(["succeeded", draw(st.sampled_from([200, 200, 200, 500]))])
        if row != [["succeeded", 200]]:
            table[nm] = row
    return table


@st.composite
def choices(draw, max_size=60, hi=255):
    # Hypothesis' lists are short on average; draw the minimum length explicitly so that long
    # schedules (many decisions before the deterministic finish) are common
    lo = draw(st.sampled_from([0, 0, 5, 10, 20, 30]))
    lo = min(lo, max_size)
    return draw(st.lists(st.integers(0, hi), min_size=lo, max_size=max_size))


def _with_eager(draw, flags):
    """Half of the schedules poll after every operation (so that only the order of reports is left to
    chance, which makes 'the slow branch reports last' common), the others choose when to poll."""
    f = dict(flags or {})
    if "eager_poll" not in f:
        f["eager_poll"] = draw(st.sampled_from([0, 1]))
    return f


@st.composite
def scenario(draw, c=None, flags=None, p_fail=None, abend=True, max_choices=60, fixed_outcomes=False, controls=None, canceled=False):
    ir = draw(wf_ir(c))
    if p_fail is None:
        p_fail = draw(st.sampled_from([0.0, 0.05, 0.1, 0.2, 0.35]))
    ctl = []
    for kind, mx in (controls or {}).items():
        for _ in range(draw(st.integers(0, mx))):
            ctl.append([draw(st.integers(1, 30)), kind])
    return {
        "ir": ir,
        "inputs": {},
        "outcomes": draw(outcomes(ir, p_fail=p_fail, abend=abend, fixed=fixed_outcomes, canceled=canceled)),
        "choices": draw(choices(max_choices)),
        "flags": _with_eager(draw, flags),
        "style": draw(st.integers(0, 3)),
        "controls": sorted(ctl),
    }


# ----------------------------------------------------------------------------- directed templates


@st.composite
def fork_join_ir(draw, items=False, retry=False, split=None):
    """Directed shape: [optional split upstream ->] fork of 2..5 branches (length 1..2) into a join
    (all / N), branches that transition into the join on success, on failure (remediated), always, by
    result, twice, or never; the join optionally retries / iterates; a tail task follows."""
    lng = draw(st.sampled_from([lang.YAQL, lang.JINJA]))
    k = draw(st.integers(2, 5))
    tasks = {}
    fork_targets = []
    J = "j"
    for b in range(k):
        ln = draw(st.sampled_from([1, 1, 2]))
        chain = ["b%d_%d" % (b, i) for i in range(ln)]
        fork_targets.append(chain[0])
        for i, nm in enumerate(chain):
            t = {"action": "core.act", "next": [], "input": {"who": nm}}
            if i < ln - 1:
                # a publish early in a long branch: published first, arrives last
                early = [[draw(st.sampled_from(POOL)), "early@%s" % nm]] if draw(st.booleans()) else []
                t["next"].append({"when": E(["true"], lng), "do": [chain[i + 1]], "publish": early})
            else:
                mode = draw(st.sampled_from(["always", "always", "succeeded", "succeeded", "failed", "completed", "code", "never", "twice", "either", "handler"]))
                pub = [[draw(st.sampled_from(POOL)), "pub@%s" % nm]] if draw(st.booleans()) else []
                if mode == "always":
                    t["next"].append({"when": E(["true"], lng), "do": [J], "publish": pub})
                elif mode in ("succeeded", "failed", "completed"):
                    t["next"].append({"when": E([mode], lng), "do": [J], "publish": pub})
                elif mode == "code":
                    t["next"].append({"when": E(["res_eq", "code", 200], lng), "do": [J], "publish": pub})
                elif mode == "never":
                    t["next"].append({"when": E(["res_eq", "code", 999], lng), "do": [J], "publish": pub})
                elif mode == "either":  # two transitions into the join, exactly one of them is taken
                    t["next"].append({"when": E(["succeeded"], lng), "do": [J], "publish": pub})
                    t["next"].append({"when": E(["failed"], lng), "do": [J], "publish": []})
                elif mode == "twice":
                    t["next"].append({"when": E(["succeeded"], lng), "do": [J], "publish": pub})
                    t["next"].append({"when": E(["completed"], lng), "do": [J], "publish": []})
                else:  # failure handler that does not lead to the join, success does
                    t["next"].append({"when": E(["succeeded"], lng), "do": [J], "publish": pub})
                    t["next"].append({"when": E(["failed"], lng), "do": ["noop"], "publish": []})
            tasks[nm] = t
    jt = {"action": "core.act", "input": {"who": J}, "next": [{"when": E(["succeeded"], lng), "do": ["tail"], "publish": [["z", "pub@j"]]}]}
    jt["join"] = draw(st.one_of(st.just("all"), st.integers(1, k)))
    if items and draw(st.booleans()):
        jt["with"] = {"items": E(["lit", list(range(draw(st.integers(1, 3))))], lng), "keys": None}
        c = draw(st.sampled_from([None, 1, 2]))
        if c:
            jt["with"]["concurrency"] = c
        jt["input"]["it"] = E(["item"], lng)
    if retry and draw(st.booleans()):
        jt["retry"] = {"count": draw(st.integers(1, 2))}
    tasks[J] = jt
    tasks["tail"] = {"action": "core.act", "input": {"who": "tail"}, "next": []}
    use_split = draw(st.booleans()) if split is None else split
    if use_split:
        # two roots both transition into `s`, which therefore runs once per arrival on its own route
        tasks["r0"] = {"action": "core.act", "input": {"who": "r0"}, "next": [{"when": E(["true"], lng), "do": ["s"], "publish": [["x", "pub@r0"]]}]}
        tasks["r1"] = {"action": "core.act", "input": {"who": "r1"}, "next": [{"when": E(["true"], lng), "do": ["s"], "publish": [["x", "pub@r1"]]}]}
        tasks["s"] = {"action": "core.act", "input": {"who": "s"}, "next": [{"when": E(["true"], lng), "do": list(fork_targets), "publish": []}]}
    else:
        tasks["r0"] = {"action": "core.act", "input": {"who": "r0"}, "next": [{"when": E(["true"], lng), "do": list(fork_targets), "publish": [["x", "pub@r0"]]}]}
    ir = {"vars": [[v, "init_" + v] for v in POOL], "tasks": tasks}
    ir["output"] = [[v + "_out", E(["ctx", v], lng)] for v in POOL]
    return ir


@st.composite
def items_siblings_ir(draw):
    """Directed shape: 1..2 with-items tasks (1..4 items, concurrency none/1/2) running beside 1..2 plain
    tasks, either all as start tasks or below a common root; optionally all of them transition into a
    join (all / N) with a tail.  The window between two items of a concurrency-limited task - the task
    is running with no item in progress - is where a report from a sibling (pending, canceled, failed)
    or a request lands."""
    lng = draw(st.sampled_from([lang.YAQL, lang.JINJA]))
    tasks = {}
    names = []
    for i in range(draw(st.integers(1, 2))):
        nm = "w%d" % i
        n = draw(st.integers(1, 4))
        t = {"action": "core.act", "next": [], "input": {"who": nm, "it": E(["item"], lng)},
             "with": {"items": E(["lit", list(range(n))], lng), "keys": None}}
        c = draw(st.sampled_from([None, 1, 1, 2]))
        if c:
            t["with"]["concurrency"] = c
        tasks[nm] = t
        names.append(nm)
    for i in range(draw(st.integers(1, 2))):
        nm = "a%d" % i
        tasks[nm] = {"action": "core.act", "next": [], "input": {"who": nm}}
        names.append(nm)
    if draw(st.booleans()):
        for nm in names:
            mode = draw(st.sampled_from(["true", "true", "succeeded", "completed"]))
            tasks[nm]["next"].append({"when": E([mode], lng), "do": ["j"], "publish": []})
        tasks["j"] = {"action": "core.act", "input": {"who": "j"}, "join": draw(st.one_of(st.just("all"), st.just("all"), st.just("all"), st.integers(1, len(names)))),
                      "next": [{"when": E(["succeeded"], lng), "do": ["tail"], "publish": []}]}
        tasks["tail"] = {"action": "core.act", "input": {"who": "tail"}, "next": []}
    if draw(st.booleans()):
        tasks["r0"] = {"action": "core.act", "input": {"who": "r0"}, "next": [{"when": E(["true"], lng), "do": list(names), "publish": [["x", "pub@r0"]]}]}
    ir = {"vars": [[v, "init_" + v] for v in POOL], "tasks": tasks}
    ir["output"] = [[v + "_out", E(["ctx", v], lng)] for v in POOL]
    return ir


@st.composite
def terminal_ir(draw):
    """Directed shape for how contexts reach joins and the end of the workflow: 2..4 chains (length 1..3)
    that start at start tasks of their own or below a publish-free root; a transition publishes a variable
    or nothing (so that some lineages carry only the initial context); a chain ends as a leaf, as a
    run-time dead end (its only transition is not taken), in `noop`, or in a common join (all)."""
    lng = draw(st.sampled_from([lang.YAQL, lang.JINJA]))
    k = draw(st.integers(2, 4))
    tasks = {}
    heads, arrivals = [], []
    site = [0]

    def pub():
        site[0] += 1
        if draw(st.integers(0, 2)) == 0:
            return []
        return [[draw(st.sampled_from(POOL)), "p%d" % site[0]]]

    for b in range(k):
        ln = draw(st.integers(1, 3))
        chain = ["c%d_%d" % (b, i) for i in range(ln)]
        heads.append(chain[0])
        for i, nm in enumerate(chain):
            t = {"action": "core.act", "next": [], "input": {"who": nm}}
            if i < ln - 1:
                t["next"].append({"when": E(["true"], lng), "do": [chain[i + 1]], "publish": pub()})
            else:
                end = draw(st.sampled_from(["leaf", "leaf", "dead", "dead", "noop", "join", "join", "join"]))
                if end == "dead":
                    t["next"].append({"when": E(["failed"], lng), "do": ["sink"], "publish": pub()})
                elif end == "noop":
                    t["next"].append({"when": E(["true"], lng), "do": ["noop"], "publish": pub()})
                elif end == "join":
                    t["next"].append({"when": E(["true"], lng), "do": ["j"], "publish": pub()})
                    arrivals.append(nm)
            tasks[nm] = t
    if any(t["next"] and t["next"][0]["do"] == ["sink"] for t in tasks.values()):
        tasks["sink"] = {"action": "core.act", "input": {"who": "sink"}, "next": []}
    if arrivals:
        tasks["j"] = {"action": "core.act", "input": {"who": "j"}, "next": []}
        if len(arrivals) >= 2:
            tasks["j"]["join"] = "all"
        if draw(st.booleans()):
            tasks["j"]["next"].append({"when": E(["true"], lng), "do": ["tail"], "publish": pub()})
            tasks["tail"] = {"action": "core.act", "input": {"who": "tail"}, "next": []}
    if draw(st.booleans()):
        tasks["r0"] = {"action": "core.act", "input": {"who": "r0"}, "next": [{"when": E(["true"], lng), "do": list(heads), "publish": []}]}
    ir = {"vars": [[v, "init_" + v] for v in POOL], "tasks": tasks}
    ir["output"] = [[v + "_out", E(["ctx", v], lng)] for v in POOL]
    return ir


@st.composite
def directed_scenario(draw, ir_strategy, flags=None, controls=None, max_choices=60, p_fail=None, canceled=False):
    ir = draw(ir_strategy)
    if p_fail is None:
        p_fail = draw(st.sampled_from([0.0, 0.1, 0.25, 0.4]))
    ctl = []
    for kind, mx in (controls or {}).items():
        for _ in range(draw(st.integers(0, mx))):
            ctl.append([draw(st.integers(1, 30)), kind])
    return {
        "ir": ir,
        "inputs": {},
        "outcomes": draw(outcomes(ir, p_fail=p_fail, canceled=canceled)),
        "choices": draw(choices(max_choices)),
        "flags": _with_eager(draw, flags),
        "style": draw(st.integers(0, 3)),
        "controls": sorted(ctl),
    }
