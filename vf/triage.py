"""dev-time: run a part over N generated examples, bucket violations by kind, save first scenario per kind."""
import collections, json, sys, logging, importlib
logging.disable(logging.CRITICAL)
from hypothesis import HealthCheck, given, seed, settings, Phase
from vf import runner
from vf.runner import Reject, Stats, Violation

def main(prop, partname, n, sd=1):
    mod = importlib.import_module("vf.props.%s" % prop.lower())
    part = [p for p in mod.PARTS if p.name == partname][0]
    kinds = collections.Counter(); first = {}
    stats = Stats()
    @seed(sd)
    @settings(max_examples=n, database=None, deadline=None, suppress_health_check=list(HealthCheck), phases=[Phase.generate])
    @given(part.strategy("quick"))
    def t(scn):
        try:
            part.run(scn, stats)
        except Reject:
            pass
        except Violation as v:
            k = runner.match_known(prop.upper(), part.name, scn, v)
            key = v.kind + ("  [known %s]" % k if k else "")
            kinds[key] += 1
            if key not in first:
                first[key] = (scn, v)
    t()
    for k, c in kinds.most_common():
        scn, v = first[k]
        fn = "/tmp/tri_%s_%s.json" % (prop, "".join(ch if ch.isalnum() else "_" for ch in k)[:40])
        json.dump({"scenario": scn, "kind": v.kind, "detail": v.detail}, open(fn, "w"), default=str)
        d = v.detail if isinstance(v.detail, dict) else {}
        print("=== %4d  %s  -> %s" % (c, k, fn))
        print("    ", {x: d[x] for x in d if x not in ("definition", "history", "outcomes", "long", "short")})
        for h in (d.get("history") or [])[-18:]:
            print("        ", h)
    print(stats.labels.most_common(12), dict(stats.excluded))

if __name__ == "__main__":
    main(sys.argv[1], sys.argv[2], int(sys.argv[3]), int(sys.argv[4]) if len(sys.argv) > 4 else 1)
